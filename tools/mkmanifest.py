#!/venv/bin/python
"""Regenerate MANIFEST.json from the property modules present under vf/props."""
import importlib
import json
import os
import sys

HERE = os.path.dirname(os.path.dirname(os.path.abspath(__file__)))
sys.path.insert(0, HERE)
os.environ.setdefault("HOME", "/nonexistent-home-for-manifest")

props = [json.loads(l) for l in open(os.path.join(HERE, "properties.jsonl"))]
checks = []
na = []
engines = {}
for p in props:
    pid = p["id"]
    try:
        mod = importlib.import_module(f"vf.props.{pid.lower()}")
    except ModuleNotFoundError:
        na.append({"property_id": pid, "reason": "check not built yet in this round (planned, see DESIGN.md section 2)"})
        continue
    m = getattr(mod, "MANIFEST", {})
    eng = m.get("engine", "reference-model monitor")
    engines.setdefault(eng, []).append(pid)
    checks.append(
        {
            "property_id": pid,
            "quick_cmd": f"./check {pid} --tier quick",
            "thorough_cmd": f"./check {pid} --tier thorough",
            "evidence_file": f"evidence/{pid}.json",
            "replay_cmd_template": f"./check {pid} --replay {{path}}",
            "engine": eng,
            "level_claimed": {
                "category": mod.LEVEL,
                "text": m.get("text", mod.RULE),
                "design_ref": m.get("design_ref", f"DESIGN.md section 2, {pid}"),
            },
            "level_note": m.get("note", "; ".join(getattr(mod, "ASSUMPTIONS", []))),
            "technique": m.get("technique", "runtime monitoring: reference-model oracle over generated executions"),
        }
    )

ENGINE_PATH = {
    "reference-model monitor": "vf/model.py",
    "fs-call monitor (audit hook)": "vf/fsmon.py",
    "fault enumeration (fork + os._exit / OSError at FS steps)": "vf/faultrun.py",
    "controlled process scheduler": "vf/sched.py",
}
manifest = {
    "version": 1,
    "setup_cmd": "mkdir -p evidence replays && /venv/bin/python -c \"import signac, sys; sys.path.insert(0, '.'); import vf.core, vf.fsmon\"",
    "hooks": {
        "guard": "SIGNAC_VERIF",
        "enable": "no source hooks: all instrumentation (sys.addaudithook FS monitor, fork/fault injection, process scheduler, monkeypatches) lives in /verif/vf and is attached at run time to the editable install of /repo",
        "baseline_off_cmd": "cd /repo && /venv/bin/python -m pytest -ra -q -p no:cacheprovider --timeout=900 --continue-on-collection-errors",
        "source_commits": [],
        "add_only": True,
    },
    "engines": [
        {"name": k, "path": ENGINE_PATH.get(k, "vf/"), "serves_properties": v, "kind_free_text": "runtime monitoring"}
        for k, v in engines.items()
    ],
    "checks": checks,
    "notes": "All checks are runtime monitors over real executions of /repo (editable install in /venv). Exit 0 = held on everything observed, 1 = VIOLATION, 2 = INCONCLUSIVE. Known findings: known_findings.json.",
    "not_applicable": na,
}
with open(os.path.join(HERE, "MANIFEST.json"), "w") as f:
    json.dump(manifest, f, indent=1)
print("checks:", [c["property_id"] for c in checks], "na:", [n["property_id"] for n in na])
