"""C03 - the workspace equals a simple model after any history of API operations."""

import copy
import itertools
import random

from .. import model, world

PROP = "C03"
LEVEL = "exploration"
MONITORS = ["fresh_view_equals_model", "check_passes", "dirname_is_hash", "len_iter_contains", "no_leftovers",
            "contain", "handle_follows", "failed_op_no_effect"]
RULE = (
    "Histories over a small universe (state point keys a in {1,1.0,'1'}, b in {0,1,True}, c, nested n; 3 file "
    "names incl. a nested one; 2 projects; handles by state point, by id, from iteration, copy.copy, deepcopy, "
    "pickle round trip, and a handle pickled into a freshly started interpreter that performs the next operation). Ops: open, init, document set/del/reset, file write, clear, reset, remove, state point "
    "key set/attr set/del, nested edit, whole assignment, update_statepoint(+-overwrite), move, clone, "
    "update_cache, restart session, drop all handles, junk entries in the workspace. Bounded-exhaustive over a "
    "12-op reduced alphabet for length<=3 (quick) / <=4 (thorough), seeded random up to length 60. After EVERY "
    "step the fresh-Project view, check(), raw tree, len/iter/membership, leftovers and all live handles are "
    "compared with the model; every op runs under the FS monitor (P-contain). Non-trivial and distinct = "
    "distinct op sequences in which at least one job existed and at least one state-changing op succeeded."
)
RULE += (
    " " + "Added later: None and '' as state point values; junk directory names that are an id plus a line feed / a space; shallow copies follow a move (the model used to release them)."
    " In every third case DEBUG logging is effective for the package."
)
ASSUMPTIONS = [
    "Document ops through a handle whose job directory was removed/moved away by a handle outside its copy group "
    "are skipped here (their outcome depends on lazily cached per-handle state; C05 covers documents).",
    "Edits that are Python-equal but differently typed (1 -> 1.0 by whole assignment / update) are skipped here and "
    "reported by C04's dedicated monitor.",
]
MANIFEST = {"technique": 'runtime monitoring: history executor vs in-memory model after every step, FS-call monitor (P-contain), live-handle observers', "engine": 'fs-call monitor (audit hook)'}
TIME_CAP = {"quick": 75, "thorough": 1500}


def EXHAUSTIVE(tier):
    return False


REDUCED = [
    ["open", 0, {"a": 1}],
    ["open", 0, {"a": 2}],
    ["init", 0],
    ["init", 1],
    ["copy", 0],
    ["docset", 0, "k", 1],
    ["file", 0, "sub/h.txt", "data"],
    ["spset", 0, "a", 2],
    ["spset", 1, "b", 0],
    ["remove", 0],
    ["move", 0, 1],
    ["clone", 1, 1],
]
# in the exhaustive part handle indices address the first / second opened handle; 'spset 0 a 2' collides
# with the second opened job, 'clone'/'move' cross projects.


def rand_op(rng):
    r = rng.random()
    i = rng.randrange(8)
    if r < 0.10:
        return ["open", rng.randrange(2), world.rand_sp(rng)]
    if r < 0.14:
        return ["openid", rng.randrange(2), rng.randrange(6)]
    if r < 0.17:
        return ["iterhandle", rng.randrange(2), rng.randrange(6)]
    if r < 0.22:
        return [rng.choice(["copy", "copy", "deepcopy", "pickle"]), i]
    if r < 0.34:
        return ["init", i]
    if r < 0.42:
        k = rng.choice(["k", "k2", "n"])
        return ["docset", i, k, copy.deepcopy(rng.choice(world.DOC_VALUES_BY_KEY[k]))]
    if r < 0.44:
        return ["docdel", i, rng.choice(["k", "k2", "n"])]
    if r < 0.46:
        k = rng.choice(["k", "z"])
        return ["docreset", i, {k: copy.deepcopy(rng.choice(world.DOC_VALUES_BY_KEY[k]))}]
    if r < 0.53:
        return ["file", i, rng.choice(world.FILE_NAMES), rng.choice(["", "data", "x" * 300, "é\n"])]
    if r < 0.56:
        return ["clear", i]
    if r < 0.59:
        return ["reset", i]
    if r < 0.65:
        return ["remove", i]
    if r < 0.74:
        k = rng.choice(list(world.SP_VALUES))
        return [rng.choice(["spset", "spset", "spattr"]), i, k, copy.deepcopy(rng.choice(world.SP_VALUES[k]))]
    if r < 0.77:
        return ["spdel", i, rng.choice(list(world.SP_VALUES))]
    if r < 0.80:
        return ["spnested", i, rng.choice([1, 2, 3])]
    if r < 0.84:
        return ["spassign", i, world.rand_sp(rng)]
    if r < 0.88:
        k = rng.choice(list(world.SP_VALUES))
        return ["update_sp", i, {k: copy.deepcopy(rng.choice(world.SP_VALUES[k]))}, rng.random() < 0.5]
    if r < 0.92:
        return ["move", i, rng.randrange(2)]
    if r < 0.95:
        return ["clone", i, rng.randrange(2)]
    if r < 0.97:
        return ["update_cache", rng.randrange(2)]
    if r < 0.985:
        return ["restart", rng.randrange(2)] if rng.random() < 0.6 else ["procdo", i, rng.randrange(5)]
    if r < 0.99:
        return ["drop_all"]
    return ["junk", rng.randrange(2), rng.randrange(9)]


def gen_cases(ctx):
    i = 0
    L = 3 if ctx.quick else 4
    for n in range(1, L + 1):
        for combo in itertools.product(range(len(REDUCED)), repeat=n):
            if ctx.take(i):
                yield {"ops": [copy.deepcopy(REDUCED[k]) for k in combo], "exh": True}
            i += 1
    rng = ctx.grng("rand")
    for _ in range(ctx.budget(5500, 120000)):
        n = rng.choice([5, 10, 20, 40, 60])
        ops = [rand_op(rng) for _ in range(n)]
        if ctx.take(i):
            yield {"ops": ops}
        i += 1


def run_case(ctx, case):
    w = world.World(ctx, nproj=2)
    n = world.run_history(ctx, w, case["ops"])
    ctx.count("ops_executed", n)
    if any(w.model) and n:
        ctx.distinct("nontrivial", case["ops"])
    if not case.get("exh"):
        ctx.sample({"ops": case["ops"][:8], "len": len(case["ops"]),
                    "final_ids": [sorted(m) for m in w.model]})
