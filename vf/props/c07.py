"""C07 - all query front ends, cursors and groupby agree with find_jobs."""

import argparse
import contextlib
import copy
import io
import json
import os
import random
import subprocess
import sys

from .. import model, query, sig

PROP = "C07"
LEVEL = "exploration"
MONITORS = ["groupby_interleaved", "spelling", "tokens", "cli_inprocess", "cursor", "groupby"]
RULE = (
    "C06 corpora x seeded random filters (depth 0-2); each canonical filter is re-spelt by the rewriting rules "
    "(nested<->dotted keys, +/- 'sp.' prefix, {'sp': {...}}/{'doc': {...}} namespaces, operator as nested "
    "mapping <-> '.$op' key suffix, mapping <-> sequence of pairs, mapping <-> CLI tokens / single JSON token / "
    "whitespace-joined string where the casting rules denote the same typed value) and every spelling must select "
    "the id set of the canonical spelling through find_jobs, parse_filter_arg and the CLI's _find_with_filter "
    "(in-process, and `python -m signac find` in a subprocess for a sample). Each cursor's len/list/index/"
    "negative index/slices/membership must describe one id set. groupby over top-level, dotted, sp./doc. "
    "prefixed, tuple, None and callable keys with and without defaults is compared with a model partition. "
    "Non-trivial and distinct = distinct (corpus, filter, spelling) triples with a non-empty result, plus "
    "distinct (corpus, filter, grouping key, default) with >= 2 groups or >= 2 members in a group."
)
RULE += (
    " " + 'Added later: /regex/ tokens whose pattern holds slashes; two groupby generators of one cursor consumed in step; the selection helper behind -f/--filter of diff / schema / sync; one job directory moved aside and symlinked back.'
    " In every third case DEBUG logging is effective for the package."
)
ASSUMPTIONS = [
    "Spellings are compared with the real result of the canonical spelling (metamorphic); the canonical spelling "
    "itself is tied to the evaluator by C06.",
    "Grouping inputs whose labels cannot be sorted together (TypeError in the model's own sorted()) are unjudged.",
]
MANIFEST = {"technique": 'runtime monitoring: metamorphic spellings / CLI tokens / subprocess CLI vs canonical result; cursor and groupby model partitions', "engine": 'reference-model monitor'}
TIME_CAP = {"quick": 70, "thorough": 1200}


def gen_cases(ctx):
    rng = ctx.grng("corpora")
    n = ctx.budget(2200, 40000)
    for i in range(n):
        corpus = query.rand_corpus(rng)
        fseed = rng.getrandbits(48)
        if ctx.take(i):
            yield {"corpus": corpus, "fseed": fseed, "nrand": 25, "subproc": i % 41 == 5}


# --------------------------------------------------------------------------- spellings

def _nest(key, value):
    nodes = key.split(".")
    out = value
    for n in reversed(nodes):
        out = {n: out}
    return out


def _toggle_prefix(key):
    head = key.split(".", 1)[0]
    if head == "sp" and "." in key:
        return key.split(".", 1)[1]
    if head == "doc":
        return None
    return "sp." + key


def _merge(a, b):
    """Merge nested mapping b into a; None on conflict."""
    for k, v in b.items():
        if k in a:
            if isinstance(a[k], dict) and isinstance(v, dict) and not any(x.startswith("$") for x in list(a[k]) + list(v)):
                if _merge(a[k], v) is None:
                    return None
            else:
                return None
        else:
            a[k] = v
    return a


def respell(flt, rng):
    """One random equivalent spelling of a canonical filter mapping (recursive)."""
    out = {}
    for key, value in flt.items():
        if key in ("$and", "$or"):
            piece = {key: [respell(e, rng) for e in value]}
            if rng.random() < 0.3:
                piece = {key: tuple(piece[key])}
        elif key == "$not":
            piece = {key: respell(value, rng)}
        else:
            k = key
            if rng.random() < 0.5:
                k2 = _toggle_prefix(k)
                if k2 is not None:
                    k = k2
            v = copy.deepcopy(value)
            if isinstance(v, dict) and len(v) == 1 and next(iter(v)).startswith("$") and rng.random() < 0.5:
                op, arg = next(iter(v.items()))
                k, v = k + "." + op, arg
            if rng.random() < 0.5:
                if k.endswith(tuple("." + o for o in query.OPS)):
                    base, op = k.rsplit(".", 1)
                    piece = _nest(base, {op: v}) if rng.random() < 0.5 else _nest(k, v)
                else:
                    piece = _nest(k, v)
            else:
                piece = {k: v}
        if _merge(out, piece) is None:
            # conflict between two entries of one mapping: keep the canonical entry
            out2 = dict(out)
            if key in out2:
                return copy.deepcopy(flt)
            out2[key] = copy.deepcopy(value)
            out = out2
    # two different spellings must not collapse onto one namespaced key (outside the grammar:
    # like a JSON object with a duplicate key, the second silently replaces the first)
    tops = [query.prefixed(k) for k in out if k not in query.LOGICAL]
    if len(tops) != len(set(tops)):
        return copy.deepcopy(flt)
    seen = set()
    for k in out:
        if k in query.LOGICAL:
            continue
        for dk, _ in query.flat_atoms(query.prefixed(k), out[k]):
            if dk in seen:
                return copy.deepcopy(flt)
            seen.add(dk)
    return out


def _cast_ref(x):
    """The documented casting rule of CLI tokens: true/false/null, int, float, else str."""
    if x in ("true", "false", "null"):
        return {"true": True, "false": False, "null": None}[x]
    try:
        return int(x)
    except ValueError:
        try:
            return float(x)
        except ValueError:
            return x


def token_of(v):
    """CLI token denoting exactly value v, or None if the token syntax cannot express it."""
    if v is None:
        return "null"
    if isinstance(v, bool):
        return "true" if v else "false"
    if isinstance(v, int):
        return str(v)
    if isinstance(v, float):
        t = repr(v)
        return t if isinstance(_cast_ref(t), float) and _cast_ref(t) == v and repr(_cast_ref(t)) == t else None
    if isinstance(v, str):
        if v == "" or v == "!" or v != v.strip() or any(c.isspace() for c in v):
            return None
        if v[0] in "{[" or (v.startswith("/") and v.endswith("/")):
            return None
        if _cast_ref(v) != v or not isinstance(_cast_ref(v), str):
            return None
        if v in ("True", "False", "None", "none"):
            return None
        return v
    if isinstance(v, list):
        return json.dumps(v)
    if isinstance(v, dict):
        if list(v) == ["$regex"]:
            return "/" + v["$regex"] + "/"  # the delimiters are the outermost slashes; the pattern may hold more
        if v == {"$exists": True}:
            return "!"
        return json.dumps(v)
    return None


def token_spellings(flt, rng):
    """List of (kind, tokens) for a canonical filter."""
    out = [("json1", [json.dumps(flt)])]
    if any(k in query.LOGICAL for k in flt):
        return out
    toks = []
    for k, v in flt.items():
        if k[0] in "{[":
            return out
        t = token_of(v)
        if t is None:
            return out
        toks += [k, t]
    if toks and toks[-1] == "!" :
        out.append(("simple-exists-tail", toks[:-1]))
    out.append(("simple", toks))
    return out


# --------------------------------------------------------------------------- monitors

def cursor_checks(ctx, project, by_id, flt, canon):
    cur = project.find_jobs(copy.deepcopy(flt)) if flt is not None else project.find_jobs()
    ids = [j.id for j in cur]
    ctx.monitor("cursor")
    problems = []
    if len(ids) != len(set(ids)):
        problems.append(("duplicates", ids))
    if set(ids) != canon:
        problems.append(("iter-set", sorted(ids)))
    if len(cur) != len(ids):
        problems.append(("len", len(cur), len(ids)))
    if [j.id for j in cur] != ids:
        problems.append(("second-iteration-differs",))
    for i in range(len(ids)):
        if cur[i].id != ids[i] or cur[-(i + 1)].id != ids[-(i + 1)]:
            problems.append(("getitem", i))
            break
    for a, b in ((0, 2), (1, None), (None, -1), (0, 0), (-2, None)):
        if [j.id for j in cur[a:b]] != ids[a:b]:
            problems.append(("slice", a, b))
    try:
        cur[len(ids)]
        problems.append(("index-past-end-no-error",))
    except IndexError:
        pass
    for jid in by_id:
        job = project.open_job(id=jid)
        if (job in cur) != (jid in canon):
            problems.append(("contains", jid, job in cur))
    ghost = project.open_job({"ghost": 1})
    if ghost in cur:
        problems.append(("contains-uninitialised",))
    # each view asked first on a cursor that has not been used for anything else
    for jid in by_id:
        fresh = project.find_jobs(copy.deepcopy(flt)) if flt is not None else project.find_jobs()
        if (project.open_job(id=jid) in fresh) != (jid in canon):
            problems.append(("contains-asked-first", jid))
            break
    fresh = project.find_jobs(copy.deepcopy(flt)) if flt is not None else project.find_jobs()
    if len(fresh) != len(canon):
        problems.append(("len-asked-first", len(fresh)))
    if ids:
        fresh = project.find_jobs(copy.deepcopy(flt)) if flt is not None else project.find_jobs()
        if fresh[0].id != ids[0]:
            problems.append(("getitem-asked-first",))
    if problems:
        ctx.violation("cursor-views-disagree", "cursor len/iter/index/slice/membership do not describe one id set",
                      {"filter": flt, "problems": problems, "canonical": sorted(canon), "corpus": by_id})


def _label(jd, keyspec, default):
    """Model label of a job for a single string key; (present, value)."""
    nodes = query.prefixed(keyspec).split(".")
    v = query.lookup(jd, nodes)
    if v is query._ABSENT:
        return False, default
    if v is query._MAPPING:
        d = jd
        for n in nodes:
            d = d[n]
        return True, d
    return True, v


def _plain_label(x):
    x = model.plain(x)
    if isinstance(x, (list, tuple)):
        return tuple(_plain_label(v) for v in x)
    return x


def _nested_spec(spec):
    return isinstance(spec, (str, tuple)) and any(
        "." in (k.split(".", 1)[1] if k.split(".", 1)[0] in ("sp", "doc") else k)
        for k in ([spec] if isinstance(spec, str) else spec)
    )


def groupby_checks(ctx, project, by_id, flt, canon, rng):
    specs = ["a", "sp.a", "b", "n.x", "sp.n.x", "doc.d", "doc.m.y", "n.z.w", ("a", "b"), ("a", "doc.d"),
             ("sp.b", "n.x"), None, "callable", "zz", "speed", "docking.site", ("speed", "a")]
    for spec in rng.sample(specs, 5):
        for default in (None, rng.choice([-5, "zzz", 0.25])):
            cur = project.find_jobs(copy.deepcopy(flt)) if flt else project.find_jobs()
            # model
            exp_members = {}
            ill = False
            if spec is None:
                exp_members = {jid: jid for jid in canon}
            elif spec == "callable":
                exp_members = {jid: type(by_id[jid]["sp"].get("a")).__name__ for jid in canon}
            else:
                keys = [spec] if isinstance(spec, str) else list(spec)
                for jid in canon:
                    parts = [_label(by_id[jid], k, default) for k in keys]
                    if default is None and not all(p for p, _ in parts):
                        continue
                    vals = [v for _, v in parts]
                    exp_members[jid] = vals[0] if isinstance(spec, str) else tuple(vals)
            labels = list(exp_members.values())
            try:
                sorted(labels)
                if any(isinstance(x, dict) for l in labels for x in (l if isinstance(l, tuple) else (l,))):
                    ill = len(labels) > 1
            except TypeError:
                ill = True
            if ill:
                ctx.count("groupby_unsortable_unjudged")
                continue
            key_arg = (lambda job: type(job.cached_statepoint.get("a")).__name__) if spec == "callable" else spec
            if spec == "callable" and default is not None:
                continue
            try:
                got = [(_plain_label(lbl), [j.id for j in grp]) for lbl, grp in cur.groupby(key_arg, default=default)]
            except Exception as e:  # noqa
                ctx.monitor("groupby")
                key = "groupby-nested-key-not-resolved" if (_nested_spec(spec) and isinstance(e, KeyError)) else "groupby-raises"
                ctx.violation(key, f"groupby({spec!r}, default={default!r}) raised {type(e).__name__}: {e}",
                              {"filter": flt, "spec": spec, "default": default, "corpus": by_id,
                               "expected_members": exp_members})
                continue
            ctx.monitor("groupby")
            problems = []
            # two groupings of one cursor object consumed in step (nested loops over groupby) must each give what they
            # give alone
            try:
                g1 = cur.groupby(key_arg, default=default)
                g2 = cur.groupby(lambda job: job.id[::-1])  # always sortable, ordered unlike the first grouping
                inter = []
                while True:
                    try:
                        lbl, grp = next(g1)
                    except StopIteration:
                        break
                    inter.append((_plain_label(lbl), [j.id for j in grp]))
                    try:
                        _l2, grp2 = next(g2)
                        _ = [j.id for j in grp2]
                    except StopIteration:
                        pass
                ctx.monitor("groupby_interleaved")
                if inter != got:
                    problems.append(("interleaved-iteration-differs", inter[:4], got[:4]))
            except Exception as e:  # noqa
                problems.append(("interleaved-iteration-raises", repr(e)))
            seen = []
            for lbl, members in got:
                for m in members:
                    if m in seen:
                        problems.append(("job-in-two-groups", m))
                    seen.append(m)
                    if m not in exp_members:
                        problems.append(("unexpected-member", m))
                    elif not (_plain_label(exp_members[m]) == lbl):
                        problems.append(("label-differs-from-member-value", m, lbl, exp_members[m]))
            if set(seen) != set(exp_members):
                problems.append(("union-differs", sorted(set(exp_members) - set(seen)), sorted(set(seen) - set(exp_members))))
            # maximality: equal labels must not be split over two groups
            lbls = [l for l, _ in got]
            for i in range(len(lbls)):
                for j in range(i + 1, len(lbls)):
                    try:
                        if lbls[i] == lbls[j]:
                            problems.append(("label-split", lbls[i]))
                    except Exception:
                        pass
            if problems:
                only_labels = all(p[0] in ("label-differs-from-member-value", "label-split") for p in problems)
                ctx.violation("groupby-nested-key-not-resolved" if (_nested_spec(spec) and only_labels and default is not None) else "groupby-partition-wrong", f"groupby({spec!r}, default={default!r}) is not the model partition",
                              {"filter": flt, "spec": spec, "default": default, "problems": problems[:6],
                               "got": got, "corpus": by_id})
            if len(got) >= 2 or any(len(m) >= 2 for _, m in got):
                ctx.distinct("nontrivial", ["g", sorted(by_id), flt, spec, default])


def cli_inprocess(project, tokens):
    from signac.__main__ import _find_with_filter

    cwd = os.getcwd()
    os.chdir(project.path)
    try:
        with contextlib.redirect_stderr(io.StringIO()):
            return set(_find_with_filter(argparse.Namespace(filter=list(tokens), job_id=None)))
    finally:
        os.chdir(cwd)


def cli_selection_inprocess(project, tokens):
    """The selection that `signac diff|schema|sync -f <tokens>` work on (None = no selection given = every job)."""
    from signac.__main__ import _find_with_filter_or_none

    cwd = os.getcwd()
    os.chdir(project.path)
    try:
        with contextlib.redirect_stderr(io.StringIO()):
            sel = _find_with_filter_or_none(argparse.Namespace(filter=list(tokens), job_id=None))
        return {j.id for j in project} if sel is None else set(sel)
    finally:
        os.chdir(cwd)


def run_case(ctx, case):
    from signac.filterparse import parse_filter_arg

    corpus = case["corpus"]
    project, by_id = query.build_project(ctx, corpus)
    rng = random.Random(case["fseed"])
    if case["fseed"] % 4 == 0 and by_id:
        # one job lives elsewhere (say on scratch storage) and is linked back into the workspace: still a job, for
        # every view of every cursor
        jid = sorted(by_id)[0]
        home = os.path.join(project.path, "relocated")
        os.makedirs(home, exist_ok=True)
        os.replace(os.path.join(project.workspace, jid), os.path.join(home, jid))
        os.symlink(os.path.join(home, jid), os.path.join(project.workspace, jid))
        ctx.count("corpora_with_a_symlinked_job_directory")
        import signac

        project = signac.Project(project.path)
    filters = [None, {}]
    for _ in range(case["nrand"]):
        filters.append(query.rand_filter(rng, corpus, rng.choice([0, 0, 0, 1, 1, 2])))
    if "only_filter" in case:
        filters = [case["only_filter"]]
    nsub = 0
    for flt in filters:
        canon, err = query.find_ids(project, flt) if flt else ({j.id for j in project.find_jobs()}, None)
        if err is not None:
            ctx.count("canonical_raised_unjudged")
            continue
        cursor_checks(ctx, project, by_id, flt, canon)
        if rng.random() < 0.35:
            groupby_checks(ctx, project, by_id, flt, canon, rng)
        if not flt:
            continue
        # mapping spellings
        spells = [("pairs", list(copy.deepcopy(flt).items()))]
        for _ in range(4):
            spells.append(("respell", respell(flt, rng)))
        for kind, sp in spells:
            got, e = query.find_ids(project, sp)
            ctx.monitor("spelling")
            if e is not None or got != canon:
                ctx.violation(
                    "equivalent-spelling-differs",
                    f"spelling ({kind}) selects different jobs than the canonical filter",
                    {"canonical": flt, "spelling": sp, "got": sorted(got) if got is not None else repr(e),
                     "want": sorted(canon), "corpus": by_id},
                )
            if canon:
                ctx.distinct("nontrivial", [sorted(by_id), flt, sp])
        # token spellings
        for kind, toks in token_spellings(flt, rng):
            ctx.monitor("tokens")
            try:
                with contextlib.redirect_stderr(io.StringIO()):
                    parsed = parse_filter_arg(toks)
                got, e = query.find_ids(project, parsed)
            except Exception as ex:  # noqa
                got, e = None, ex
            if e is not None or got != canon:
                ctx.violation(
                    "token-spelling-differs", f"CLI token spelling ({kind}) selects different jobs",
                    {"canonical": flt, "tokens": toks, "got": sorted(got) if got is not None else repr(e),
                     "want": sorted(canon), "corpus": by_id},
                )
                continue
            ctx.monitor("cli_inprocess")
            try:
                got2 = cli_inprocess(project, toks)
            except Exception as ex:  # noqa
                got2 = repr(ex)
            if got2 != canon:
                ctx.violation("cli-find-differs", "the CLI filter path selects different jobs",
                              {"canonical": flt, "tokens": toks, "got": got2, "want": sorted(canon)})
            if toks:
                # the other sub-commands that take -f/--filter (diff, schema, sync) select through their own helper
                try:
                    got4 = cli_selection_inprocess(project, toks)
                except Exception as ex:  # noqa
                    got4 = repr(ex)
                if got4 != canon:
                    ctx.violation("cli-filter-option-differs", "the -f/--filter option of diff / schema / sync selects different jobs",
                                  {"canonical": flt, "tokens": toks, "got": sorted(got4) if isinstance(got4, set) else got4,
                                   "want": sorted(canon)})
            if kind == "simple" and all(" " not in t and "\t" not in t for t in toks) and toks:
                got3, e3 = query.find_ids(project, " ".join(toks))
                if e3 is not None or got3 != canon:
                    ctx.violation("string-spelling-differs", "whitespace-joined string filter selects different jobs",
                                  {"canonical": flt, "string": " ".join(toks),
                                   "got": sorted(got3) if got3 is not None else repr(e3), "want": sorted(canon)})
            if canon:
                ctx.distinct("nontrivial", [sorted(by_id), flt, toks])
            if case.get("subproc") and nsub < 3 and kind != "json1" or (case.get("subproc") and nsub == 0):
                nsub += 1
                env = dict(os.environ)
                # '--' as on any command line: tokens such as -1 would otherwise be taken for options (-1 = --one-line)
                r = subprocess.run([sys.executable, "-m", "signac", "find", "--"] + list(toks), cwd=project.path,
                                   capture_output=True, text=True, env=env, timeout=120)
                ctx.count("cli_subprocess_runs")
                got4 = set(r.stdout.split())
                if r.returncode != 0 or got4 != canon:
                    ctx.violation("cli-find-differs", "`python -m signac find` selects different jobs",
                                  {"canonical": flt, "tokens": toks, "stdout": r.stdout[-500:], "stderr": r.stderr[-500:],
                                   "want": sorted(canon)})
    ctx.sample({"corpus": corpus[:2], "filter": filters[-1], "a_spelling": respell(filters[-1], rng) if filters[-1] else None})
