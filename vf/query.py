"""Corpus / filter generators and the per-job reference evaluator shared by C06, C07, C18.

The evaluator is job-local by construction: match(jobdoc, filter) looks only at one
job's {'sp': ..., 'doc': ...}. Conventions (DESIGN.md, C06): every operator except
$exists:false needs the key to be present; equality operators use Python == after
list->tuple normalisation; a mapping-valued key equals nothing; $type uses
isinstance with the documented names; $regex matches strings only; $near is
math.isclose. TypeError while applying an operator to a present value makes the
(corpus, filter) pair ill-typed (unjudged).
"""

import math
import operator
import re

from . import model

TYPES = {"int": int, "float": float, "bool": bool, "str": str, "list": tuple, "null": type(None)}
OPS = ["$eq", "$ne", "$gt", "$gte", "$lt", "$lte", "$in", "$nin", "$exists", "$regex", "$type", "$near"]
LOGICAL = ("$and", "$or", "$not")


class IllTyped(Exception):
    pass


class _Mapping:
    """Placeholder for a present, mapping-valued key: equal to nothing."""


_MAPPING = _Mapping()
_ABSENT = object()


def tup(v):
    if isinstance(v, (list, tuple)):
        return tuple(tup(x) for x in v)
    return v


def lookup(doc, nodes):
    v = doc
    for n in nodes:
        if isinstance(v, dict) and n in v:
            v = v[n]
        else:
            return _ABSENT
    if isinstance(v, dict):
        return _MAPPING
    return tup(v)


def flat_atoms(key, v):
    if isinstance(v, dict) and v:
        for k2, v2 in v.items():
            yield from flat_atoms(key + "." + k2, v2)
    else:
        yield key, v


def prefixed(key):
    head = key.split(".", 1)[0]
    if head in ("sp", "doc"):
        return key
    return "sp." + key


def apply_op(op, value, arg):
    """Operator on a *present* value; may raise TypeError."""
    arg = tup(arg)
    if op is None:  # implicit equality
        if value is _MAPPING:
            return False
        return value == arg
    if op == "$eq":
        return value is not _MAPPING and value == arg
    if op == "$ne":
        return value is _MAPPING or value != arg
    if op in ("$gt", "$gte", "$lt", "$lte"):
        if value is _MAPPING:
            raise TypeError("mapping is not orderable")
        f = {"$gt": operator.gt, "$gte": operator.ge, "$lt": operator.lt, "$lte": operator.le}[op]
        return f(value, arg)
    if op == "$in":
        return value is not _MAPPING and value in arg
    if op == "$nin":
        return value is _MAPPING or value not in arg
    if op == "$regex":
        return isinstance(value, str) and re.search(arg, value) is not None
    if op == "$type":
        return value is not _MAPPING and isinstance(value, TYPES[arg])
    if op == "$near":
        rel, ab = 1e-9, 0.0
        if isinstance(arg, tuple):
            if len(arg) == 1:
                (arg,) = arg
            elif len(arg) == 2:
                arg, rel = arg
            else:
                arg, rel, ab = arg
        if value is _MAPPING:
            raise TypeError("mapping")
        return math.isclose(value, float(arg), rel_tol=float(rel), abs_tol=float(ab))
    raise ValueError(op)


def eval_filter(jobdoc, expr, ill):
    """True/False; `ill` (a list) collects TypeErrors; never short-circuits, so that
    ill-typedness is found wherever it hides."""
    res = True
    for key, value in expr.items():
        if key == "$and":
            r = [eval_filter(jobdoc, e, ill) for e in value]
            res = res and all(r)
        elif key == "$or":
            r = [eval_filter(jobdoc, e, ill) for e in value]
            res = res and any(r)
        elif key == "$not":
            res = (not eval_filter(jobdoc, value, ill)) and res
        else:
            for dkey, v in flat_atoms(prefixed(key), value):
                nodes = dkey.split(".")
                op = None
                if nodes[-1].startswith("$"):
                    op = nodes[-1]
                    nodes = nodes[:-1]
                val = lookup(jobdoc, nodes)
                if op == "$exists":
                    ok = (val is not _ABSENT) == bool(v)
                elif val is _ABSENT:
                    ok = False
                else:
                    try:
                        ok = bool(apply_op(op, val, v))
                    except TypeError as e:
                        ill.append((dkey, repr(e)))
                        ok = False
                res = res and ok
    return res


def expected_ids(corpus, flt):
    """corpus: {id: {'sp':..,'doc':..}} -> (set of matching ids, ill_typed list)."""
    ill = []
    out = set()
    for jid, jd in corpus.items():
        if eval_filter(jd, flt, ill):
            out.add(jid)
    return out, ill


def filter_uses_doc(flt):
    for key, value in flt.items():
        if key in ("$and", "$or"):
            if any(filter_uses_doc(e) for e in value):
                return True
        elif key == "$not":
            if filter_uses_doc(value):
                return True
        elif key.split(".", 1)[0] == "doc":
            return True
    return False


# --------------------------------------------------------------------------------------
# generators

BIG = 2 ** 63 - 1  # an integer no double represents (seeds, nanosecond timestamps)
SCALARS = [0, 1, 2, -1, -2, 1.0, 2.0, -1.0, -2.0, 0.5, 1.5, True, False, None, "x", "1", "abc", "", "x y", "a/b", "x/", BIG, BIG - 2,
           float(2 ** 63)]
LISTS = [[1], [1, 2], [1.0], ["x"], [], [True], [[1], 2]]
SP_KEYS = ["a", "b"]
DOC_KEYS = ["d"]


def rand_leaf(rng, allow_list=True):
    r = rng.random()
    if r < 0.82 or not allow_list:
        return rng.choice(SCALARS)
    return rng.choice(LISTS)


def rand_jobdoc(rng, profile):
    """profile 'homog': ints/floats only under a,b; 'mixed': anything."""
    sp, doc = {}, {}

    def leaf():
        if profile == "homog":
            return rng.choice([0, 1, 2, 3, -1, -1.0, 1.0, 2.5])
        if profile == "str":
            return rng.choice(["x", "abc", "1", "x y", ""])
        return rand_leaf(rng)

    for k in SP_KEYS:
        if rng.random() < 0.8:
            sp[k] = leaf()
    # key names that merely *start* like a namespace
    if rng.random() < 0.3:
        sp["speed"] = leaf()
    if rng.random() < 0.2:
        sp["docking"] = {"site": leaf()} if rng.random() < 0.5 else leaf()
    r = rng.random()
    if r < 0.45:
        sp["n"] = {"x": leaf()}
        if rng.random() < 0.3:
            sp["n"]["z"] = {"w": leaf()}
    elif r < 0.55:
        sp["n"] = leaf()
    if rng.random() < 0.6:
        doc["d"] = leaf()
    r = rng.random()
    if r < 0.4:
        doc["m"] = {"y": leaf()}
    elif r < 0.48:
        doc["m"] = leaf()
    return {"sp": sp, "doc": doc}


def rand_corpus(rng):
    n = rng.choice([0, 1, 2, 3, 4, 5, 6, 6])
    profile = rng.choice(["homog", "mixed", "mixed", "mixed", "str"])
    jobs = {}
    tries = 0
    while len(jobs) < n and tries < 40:
        tries += 1
        jd = rand_jobdoc(rng, profile)
        jobs.setdefault(model.model_id(jd["sp"]), jd)
    return list(jobs.values())


QUERY_KEYS = ["a", "b", "n.x", "n", "n.z.w", "doc.d", "doc.m.y", "doc.m", "sp.a", "sp.n.x", "zz", "doc.zz",
              "speed", "sp.speed", "docking", "docking.site", "sp.docking.site"]


def values_under(corpus, key):
    nodes = prefixed(key).split(".")
    out = []
    for jd in corpus:
        v = lookup(jd, nodes)
        if v is not _ABSENT and v is not _MAPPING:
            out.append(v)
    return out


def _untup(v):
    if isinstance(v, tuple):
        return [_untup(x) for x in v]
    return v


def rand_arg(rng, present, kind):
    """Draw an operator argument, type-aware with probability 0.8."""
    pool = [v for v in present]
    if kind == "order":
        nums = [v for v in pool if isinstance(v, (int, float))]
        strs = [v for v in pool if isinstance(v, str)]
        if nums and (not strs or rng.random() < 0.7) and rng.random() < 0.9:
            return rng.choice(nums + [0, 1, 1.5])
        if strs and rng.random() < 0.9:
            return rng.choice(strs + ["m"])
        return rng.choice([0, 1, 1.5, "m"])
    if pool and rng.random() < 0.8:
        return _untup(rng.choice(pool))
    return rand_leaf(rng)


def rand_atom(rng, corpus, key=None):
    key = key or rng.choice(QUERY_KEYS)
    present = values_under(corpus, key)
    op = rng.choice([None, None, None] + OPS)
    if op is None:
        return {key: rand_arg(rng, present, "eq")}
    if op in ("$eq", "$ne"):
        return {key: {op: rand_arg(rng, present, "eq")}}
    if op in ("$gt", "$gte", "$lt", "$lte"):
        return {key: {op: rand_arg(rng, present, "order")}}
    if op in ("$in", "$nin"):
        return {key: {op: [rand_arg(rng, present, "eq") for _ in range(rng.randint(0, 3))]}}
    if op == "$exists":
        return {key: {op: rng.random() < 0.6}}
    if op == "$regex":
        return {key: {op: rng.choice(["^x", "b", "^$", "1", ".", "x y", "^[a-z]+$", "/$", "^a/", "/", "a/b"])}}
    if op == "$type":
        return {key: {op: rng.choice(list(TYPES))}}
    if op == "$near":
        nums = [v for v in present if isinstance(v, (int, float)) and not isinstance(v, bool)]
        base = rng.choice(nums) if nums and rng.random() < 0.8 else rng.choice([0, 1, 1.5])
        base = base + rng.choice([0, 0, 1e-12, 0.1])
        form = rng.randint(0, 3)
        if form == 0:
            return {key: {op: base}}
        if form == 1:
            return {key: {op: [base]}}
        if form == 2:
            return {key: {op: [base, rng.choice([1e-9, 0.2])]}}
        return {key: {op: [base, rng.choice([1e-9, 0.2]), rng.choice([0.0, 0.15])]}}
    raise AssertionError(op)


def rand_filter(rng, corpus, depth):
    if depth == 0:
        r = rng.random()
        if r < 0.75:
            return rand_atom(rng, corpus)
        if r < 0.81:
            # one mapping that constrains the same key twice, once dotted and once nested: both constraints hold
            key = rng.choice(["n.x", "n.z.w", "doc.m.y"])
            f = rand_atom(rng, corpus, key)
            (k2, c2), = rand_atom(rng, corpus, key).items()
            nodes = k2.split(".")
            nested = c2
            for n in reversed(nodes[1:]):
                nested = {n: nested}
            if nodes[0] not in f:
                f[nodes[0]] = nested
            return f
        # conjunction of two atoms on different keys in one mapping
        k1, k2 = rng.sample(QUERY_KEYS, 2)
        if prefixed(k1) == prefixed(k2):
            return rand_atom(rng, corpus, k1)
        f = rand_atom(rng, corpus, k1)
        f.update(rand_atom(rng, corpus, k2))
        return f
    r = rng.random()
    if r < 0.3:
        return {"$and": [rand_filter(rng, corpus, depth - 1) for _ in range(rng.randint(1, 3))]}
    if r < 0.6:
        return {"$or": [rand_filter(rng, corpus, depth - 1) for _ in range(rng.randint(1, 3))]}
    if r < 0.85:
        return {"$not": rand_filter(rng, corpus, depth - 1)}
    f = rand_filter(rng, corpus, depth - 1)
    g = {rng.choice(["$and", "$or"]): [rand_filter(rng, corpus, depth - 1) for _ in range(rng.randint(1, 3))]}
    if rng.random() < 0.5:
        g["$not"] = rand_filter(rng, corpus, 0)
    # mix plain keys with logical keys at one level (only if f has no logical keys itself)
    if not any(k in LOGICAL for k in f):
        g.update(f)
    return g


def all_atoms(corpus):
    """Deterministic battery: every key x operator x a few arguments (type-aware + foreign)."""
    for key in QUERY_KEYS:
        present = sorted({model.tkey(v): v for v in values_under(corpus, key)}.items(), key=lambda kv: repr(kv[0]))
        present = [_untup(v) for _, v in present][:4]
        args = present + [1, "x"]
        for a in args:
            yield {key: a}
            yield {key: {"$eq": a}}
            yield {key: {"$ne": a}}
            if isinstance(a, (int, float, str)) and not isinstance(a, bool):
                for op in ("$gt", "$gte", "$lt", "$lte"):
                    yield {key: {op: a}}
            yield {key: {"$in": [a]}}
            yield {key: {"$nin": [a, 0]}}
            if isinstance(a, (int, float)) and not isinstance(a, bool):
                yield {key: {"$near": a}}
                yield {key: {"$near": [a + 0.1, 0.2]}}
        yield {key: {"$exists": True}}
        yield {key: {"$exists": False}}
        yield {key: {"$in": []}}
        yield {key: {"$nin": []}}
        for t in TYPES:
            yield {key: {"$type": t}}
        for rx in ("^x", "1", "^$", "/$"):
            yield {key: {"$regex": rx}}


def build_project(ctx, corpus, tag="q"):
    """Create a project holding the corpus. Returns (project, {id: jobdoc})."""
    from . import sig

    project = sig.new_project(ctx, tag)
    by_id = {}
    for jd in corpus:
        job = project.open_job(jd["sp"]).init()
        if jd["doc"]:
            job.document.update(jd["doc"])
        by_id[job.id] = jd
    return project, by_id


def find_ids(project, flt):
    """(set_of_ids, None) or (None, exception)."""
    import copy

    try:
        return {j.id for j in project.find_jobs(copy.deepcopy(flt))}, None
    except Exception as e:  # noqa
        return None, e
