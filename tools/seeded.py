#!/venv/bin/python
"""Seeded changes (independently written property-breaking patches).

  tools/seeded.py confirm <dir>        confirm a candidate in a scratch worktree: tests pass with the patch, demo
                                       fails with it and passes without it (dir holds patch.diff, demo.py, meta.json)
  tools/seeded.py run <name> [PROP..]  apply seeded/<name>/patch.diff to /repo, run quick checks (default: the
                                       property in meta.json), restore /repo, print which checks fired
  tools/seeded.py irun <name> [PROP..] same against a private worktree of /repo HEAD (PYTHONPATH), /repo untouched
  tools/seeded.py all                  run every seeded change against its property
"""
import json
import os
import shutil
import subprocess
import sys

os.environ.setdefault("VERIF_EVIDENCE_DIR", "/dev/shm/vf_evidence_of_broken_trees")
import tempfile

HERE = os.path.dirname(os.path.dirname(os.path.abspath(__file__)))
SEEDED = os.path.join(HERE, "seeded")


def sh(cmd, **kw):
    return subprocess.run(cmd, shell=True, capture_output=True, text=True, **kw)


def confirm(d):
    wt = tempfile.mkdtemp(prefix="seedwt_", dir="/tmp")
    os.rmdir(wt)
    r = sh(f"git -C /repo worktree add -q --detach {wt} HEAD")
    assert r.returncode == 0, r.stderr
    out = {}
    try:
        env = dict(os.environ, PYTHONPATH=wt, HOME=tempfile.mkdtemp(prefix="seedhome_"))
        demo = os.path.join(d, "demo.py")
        r0 = subprocess.run(["/venv/bin/python", demo], cwd=wt, env=env, capture_output=True, text=True, timeout=600)
        out["demo_unchanged_exit"] = r0.returncode
        ap = sh(f"git -C {wt} apply {os.path.join(d, 'patch.diff')}")
        out["apply"] = ap.returncode
        if ap.returncode != 0:
            out["apply_err"] = ap.stderr[-500:]
            return out
        r1 = subprocess.run(["/venv/bin/python", demo], cwd=wt, env=env, capture_output=True, text=True, timeout=600)
        out["demo_changed_exit"] = r1.returncode
        out["demo_changed_tail"] = (r1.stdout + r1.stderr)[-400:]
        t = subprocess.run(
            ["/venv/bin/python", "-m", "pytest", "-q", "-p", "no:cacheprovider", "--timeout=900", "tests",
             "--deselect", "tests/test_shell.py", "-x"], cwd=wt, env=env, capture_output=True, text=True, timeout=1800)
        out["tests_tail"] = t.stdout.strip().splitlines()[-1] if t.stdout.strip() else t.stderr[-200:]
        out["tests_exit"] = t.returncode
        out["confirmed"] = (r0.returncode == 0 and r1.returncode != 0 and t.returncode == 0)
    finally:
        sh(f"git -C /repo worktree remove --force {wt}")
        shutil.rmtree(wt, ignore_errors=True)
    return out


def run(name, props=None):
    d = os.path.join(SEEDED, name)
    meta = json.load(open(os.path.join(d, "meta.json")))
    props = props or [meta["property"]]
    st = sh("git -C /repo status --porcelain --untracked-files=no").stdout.strip()
    if st:
        print("refusing: /repo dirty")
        return None
    ap = sh(f"git -C /repo apply {os.path.join(d, 'patch.diff')}")
    if ap.returncode != 0:
        print("patch does not apply:", ap.stderr[-300:])
        return None
    res = {}
    try:
        for p in props:
            r = subprocess.run([os.path.join(HERE, "check"), p, "--tier", os.environ.get("VERIF_TIER", "quick")],
                               capture_output=True, text=True)
            keys = sorted({l.split("key=")[1].split(" ::")[0] for l in r.stdout.splitlines() if l.startswith("  key=")})
            res[p] = {"exit": r.returncode, "keys": keys}
            print(f"{name}: {p} exit={r.returncode} {keys[:5]}", flush=True)
    finally:
        sh("git -C /repo checkout -- .")
        shutil.rmtree(os.path.join(HERE, "replays"), ignore_errors=True)
    return res


def run_isolated(name, props=None):
    """Like run(), but against a private worktree of /repo HEAD (PYTHONPATH), leaving /repo alone: usable while
    /repo is busy, and several at a time."""
    d = os.path.join(SEEDED, name)
    meta = json.load(open(os.path.join(d, "meta.json")))
    props = props or [meta["property"]]
    wt = tempfile.mkdtemp(prefix=f"seedrun_{name}_", dir="/dev/shm")
    os.rmdir(wt)
    assert sh(f"git -C /repo worktree add -q --detach {wt} HEAD").returncode == 0
    res = {}
    try:
        ap = sh(f"git -C {wt} apply {os.path.join(d, 'patch.diff')}")
        if ap.returncode != 0:
            print(f"{name}: patch does not apply: {ap.stderr[-200:]}")
            return None
        for p in props:
            r = subprocess.run([os.path.join(HERE, "check"), p, "--tier", os.environ.get("VERIF_TIER", "quick")],
                               capture_output=True, text=True, env=dict(os.environ, PYTHONPATH=wt))
            keys = sorted({l.split("key=")[1].split(" ::")[0] for l in r.stdout.splitlines() if l.startswith("  key=")})
            res[p] = {"exit": r.returncode, "keys": keys}
            print(f"{name}: {p} exit={r.returncode} {keys[:5]}", flush=True)
    finally:
        sh(f"git -C /repo worktree remove --force {wt}")
        shutil.rmtree(wt, ignore_errors=True)
    return res


if __name__ == "__main__":
    if sys.argv[1] == "confirm":
        print(json.dumps(confirm(os.path.abspath(sys.argv[2])), indent=1))
    elif sys.argv[1] == "run":
        run(sys.argv[2], [p.upper() for p in sys.argv[3:]] or None)
    elif sys.argv[1] == "irun":
        run_isolated(sys.argv[2], [p.upper() for p in sys.argv[3:]] or None)
    elif sys.argv[1] == "all":
        for name in sorted(os.listdir(SEEDED)):
            if os.path.isdir(os.path.join(SEEDED, name)):
                run(name)
