"""Command line driver: ./check <ID> [--tier quick|thorough] [--replay PATH]."""

import argparse
import importlib
import json
import os
import subprocess
import sys
import tempfile
import time

from . import core


def _isolate_env():
    """HOME must be an empty directory *before* signac is imported (~/.signacrc is merged
    into every project configuration)."""
    home = tempfile.mkdtemp(prefix="vf_home_", dir=core.SCRATCH_BASE)
    os.environ["HOME"] = home
    os.environ.setdefault("PYTHONHASHSEED", "0")
    return home


def load(prop):
    return importlib.import_module(f"vf.props.{prop.lower()}")


def worker_main(args):
    home = _isolate_env()
    try:
        mod = load(args.prop)
        shard, nshards = (int(x) for x in args.shard.split("/"))
        ctx = core.Ctx(args.prop, args.tier, args.seed, shard, nshards)
        res = core.run_worker(mod, ctx, args.time_cap)
        with open(args.out, "w") as f:
            f.write(core.jdump(res))
    finally:
        import shutil

        shutil.rmtree(home, ignore_errors=True)
    return 0


def replay_main(args):
    home = _isolate_env()
    try:
        mod = load(args.prop)
        with open(args.replay) as f:
            body = json.load(f)
        if args.shrink and isinstance(body["case"].get("ops"), list):
            body["case"] = shrink_ops(mod, args.prop, body)
            print("SHRUNK ops:")
            for op in body["case"]["ops"]:
                print("   ", json.dumps(op))
        ctx = core.Ctx(args.prop, body.get("tier", "quick"), body.get("seed", 0), replay=True)
        ctx._case = body["case"]
        try:
            mod.run_case(ctx, body["case"])
        finally:
            ctx.cleanup()
        if ctx.violations:
            for v in ctx.violations:
                print(f"REPLAYED key={v['key']} :: {v['what']}")
                print(core.jdump(v["witness"], indent=1)[:4000])
            findings = {
                f["key"] for f in core.load_findings()
                if f["property"] == args.prop and f.get("status") == "open"
            }
            if all(v["key"] in findings for v in ctx.violations):
                print("(all replayed violations are listed known findings)")
                return 0
            print(f"VIOLATION property={args.prop} replay={args.replay}")
            return 1
        print("replay: no violation reproduced")
        return 0
    finally:
        import shutil

        shutil.rmtree(home, ignore_errors=True)


def _keys_of(mod, prop, body, case):
    ctx = core.Ctx(prop, body.get("tier", "quick"), body.get("seed", 0), replay=True)
    ctx._case = case
    try:
        mod.run_case(ctx, case)
    except Exception:
        return set()
    finally:
        ctx.cleanup()
    return {v["key"] for v in ctx.violations}


def shrink_ops(mod, prop, body):
    """Greedy step deletion keeping the violation key."""
    import copy

    case = copy.deepcopy(body["case"])
    key = body["key"]
    if key not in _keys_of(mod, prop, body, case):
        return case
    changed = True
    while changed:
        changed = False
        i = len(case["ops"]) - 1
        while i >= 0:
            trial = copy.deepcopy(case)
            del trial["ops"][i]
            if key in _keys_of(mod, prop, body, trial):
                case = trial
                changed = True
            i -= 1
    return case


def parent_main(args):
    mod = load_meta(args.prop)
    t0 = time.time()
    nshards = args.jobs or getattr(mod, "SHARDS", {}).get(args.tier, 16)
    time_cap = args.time_cap or getattr(mod, "TIME_CAP", {}).get(
        args.tier, 120 if args.tier == "quick" else 1500
    )
    outdir = tempfile.mkdtemp(prefix=f"vf_out_{args.prop}_", dir=core.SCRATCH_BASE)
    procs = []
    env = dict(os.environ)
    env["PYTHONPATH"] = core.HERE + os.pathsep + env.get("PYTHONPATH", "")
    env.setdefault("PYTHONHASHSEED", "0")
    env["PYTHONDONTWRITEBYTECODE"] = "1"
    for i in range(nshards):
        out = os.path.join(outdir, f"{i}.json")
        log = open(os.path.join(outdir, f"{i}.log"), "w")
        cmd = [
            sys.executable, "-B", "-m", "vf.cli", args.prop, "--tier", args.tier,
            "--seed", str(args.seed), "--shard", f"{i}/{nshards}", "--out", out,
            "--time-cap", str(time_cap),
        ]
        procs.append((i, out, log, subprocess.Popen(cmd, env=env, stdout=log, stderr=log, cwd=core.HERE)))
    results = []
    failed = 0
    watchdog = time_cap * 3 + 300
    for i, out, log, p in procs:
        try:
            p.wait(timeout=max(10, watchdog - (time.time() - t0)))
        except subprocess.TimeoutExpired:
            p.kill()
            p.wait()
        log.close()
        try:
            with open(out) as f:
                results.append(json.load(f))
        except Exception:
            failed += 1
            with open(log.name) as f:
                tail = f.read()[-2000:]
            results.append({
                "counters": {"worker_failed": 1}, "monitors": {}, "distincts": {}, "samples": [],
                "violations": [], "nviol": 0,
                "extra": {"harness_errors": [{"case": f"<worker {i}>", "tb": tail}]},
            })
            results[-1]["counters"]["harness_errors"] = 1
    import shutil

    shutil.rmtree(outdir, ignore_errors=True)
    merged = core.merge(results)
    return core.finalize(mod, args.tier, args.seed, merged, time.time() - t0, nshards)


def load_meta(prop):
    # importing a property module must not import signac at module level with the
    # real HOME; property modules import signac lazily (inside functions) or the
    # environment is isolated here first.
    _isolate_env_once()
    return load(prop)


_ISO = []


def _isolate_env_once():
    if not _ISO:
        _ISO.append(_isolate_env())
        import atexit
        import shutil

        atexit.register(lambda: shutil.rmtree(_ISO[0], ignore_errors=True))


def main(argv=None):
    ap = argparse.ArgumentParser(prog="check")
    ap.add_argument("prop")
    ap.add_argument("--tier", default=os.environ.get("VERIF_TIER", "quick"), choices=["quick", "thorough"])
    ap.add_argument("--seed", type=int, default=int(os.environ.get("VERIF_SEED", "0")))
    ap.add_argument("--shard")
    ap.add_argument("--out")
    ap.add_argument("--jobs", type=int, default=0)
    ap.add_argument("--time-cap", type=float, default=0)
    ap.add_argument("--replay")
    ap.add_argument("--shrink", action="store_true")
    args = ap.parse_args(argv)
    args.prop = args.prop.upper()
    if args.replay:
        return replay_main(args)
    if args.shard:
        return worker_main(args)
    return parent_main(args)


if __name__ == "__main__":
    sys.exit(main())
