"""C19 - discovery resolves to the nearest enclosing project; init_project is idempotent."""

import os
import random

from .. import fsmon, model, sig

PROP = "C19"
LEVEL = "exploration"
MONITORS = ["layout_changed_between_queries", "get_project_nearest", "get_project_nosearch", "get_job_innermost", "lookup_error_not_guess",
            "init_project_idempotent"]
RULE = (
    "Generated directory trees to depth 5 mixing initialised projects, projects nested inside job directories and "
    "inside plain sub-directories, plain directories, job directories with nested sub-directories, job directories "
    "symlinked into another project's workspace, and non-existent paths (32-hex names occur only as workspace "
    "children). Every directory of the tree (plus paths through symlinks and missing paths) is used as the query "
    "path for get_project(search=True/False) and get_job, absolute, relative to several working directories and as "
    "the implicit cwd. Expected answers come from the generator's own bookkeeping (nearest lexical ancestor holding a "
    "project; last id-named component and the project above its parent). init_project on every existing project "
    "runs under the FS monitor: same path, no mutating FS call, identical snapshot incl. configuration, documents, "
    "cache and workspace. Non-trivial and distinct = distinct (tree, query path, cwd mode) where at least two "
    "projects enclose the path or the path lies inside a job directory."
)
RULE += (
    " " + "Added later: the sweep repeated after a project appears in / disappears from a directory already asked about; paths climbing out with '..'; directories named '~'; truncated cache files."
    " In every third case DEBUG logging is effective for the package."
)
ASSUMPTIONS = [
    "Paths are resolved lexically (abspath), as the code documents; a symlinked job directory belongs to the project "
    "whose workspace holds the link.",
]
MANIFEST = {"technique": 'runtime monitoring: generator bookkeeping as oracle for discovery; FS-call monitor (P-readonly) around init_project', "engine": 'fs-call monitor (audit hook)'}
TIME_CAP = {"quick": 60, "thorough": 1200}


def gen_cases(ctx):
    rng = ctx.grng("c19")
    n = ctx.budget(900, 12000)
    for i in range(n):
        seed = rng.getrandbits(48)
        if ctx.take(i):
            yield {"seed": seed}


class Tree:
    def __init__(self, root, rng):
        self.root = root
        self.rng = rng
        self.projects = []  # absolute paths
        self.jobdirs = {}   # abs job dir path -> (project path, id)
        self.links = []     # (link path, project path (linking), id)
        self.dirs = []
        self.signac = __import__("signac")

    def mkproject(self, path, depth):
        os.makedirs(path, exist_ok=True)
        p = self.signac.init_project(path)
        self.projects.append(path)
        rng = self.rng
        if rng.random() < 0.5:
            p.document["who"] = os.path.basename(path)
        for k in range(rng.randint(0, 3)):
            job = p.open_job({"k": k, "d": depth, "p": os.path.basename(path)}).init()
            self.jobdirs[job.path] = (path, job.id)
            if rng.random() < 0.5:
                job.document["x"] = k
            if rng.random() < 0.6:
                sub = os.path.join(job.path, "data", "more")
                os.makedirs(sub)
            if depth < 3 and rng.random() < 0.3:
                self.mkproject(job.path, depth + 1)  # the job directory is itself a project
            if depth < 3 and rng.random() < 0.25:
                self.mkproject(os.path.join(job.path, "nested", "proj"), depth + 1)
        if rng.random() < 0.4:
            p.update_cache()
            if rng.random() < 0.4:
                # a cache file cut short by an interrupted copy: discovery has no business reading it
                fn = os.path.join(path, model.CACHE_FILE)
                if os.path.exists(fn):
                    with open(fn, "rb") as f:
                        data = f.read()
                    with open(fn, "wb") as f:
                        f.write(data[: len(data) // 2])
        if depth < 3 and rng.random() < 0.4:
            self.mkproject(os.path.join(path, "sub", f"inner{depth}"), depth + 1)
        if rng.random() < 0.5:
            os.makedirs(os.path.join(path, "plain", "dir"), exist_ok=True)
        if rng.random() < 0.25:
            # directory names a shell or a path helper would expand
            if depth < 3 and rng.random() < 0.5:
                self.mkproject(os.path.join(path, "~"), depth + 1)
            else:
                os.makedirs(os.path.join(path, "~", "$HOME"), exist_ok=True)

    def build(self):
        rng = self.rng
        for name in ("A", "B"):
            if rng.random() < 0.85:
                self.mkproject(os.path.join(self.root, name), 0)
        os.makedirs(os.path.join(self.root, "noproj", "deep"), exist_ok=True)
        if rng.random() < 0.5:
            self.mkproject(os.path.join(self.root, "noproj", "deep", "C"), 1)
        # symlink a job directory of one project into another project's workspace
        jobs = sorted(self.jobdirs)
        if len(self.projects) >= 2 and jobs and rng.random() < 0.7:
            jd = rng.choice(jobs)
            proj, jid = self.jobdirs[jd]
            others = [p for p in self.projects if p != proj]
            tgt = rng.choice(others)
            os.makedirs(os.path.join(tgt, "workspace"), exist_ok=True)
            link = os.path.join(tgt, "workspace", jid)
            if not os.path.lexists(link):
                os.symlink(jd, link)
                self.links.append((link, tgt, jid))


def nearest_project(tree, path):
    """Nearest lexical ancestor-or-self that is an initialised project."""
    p = path
    while True:
        # a directory reached through a symlink (the link itself or a directory below a linked job directory) is a
        # project if the directory it resolves to is one
        if p in tree.projects or os.path.realpath(p) in tree.projects:
            return p
        up = os.path.dirname(p)
        if up == p:
            return None
        p = up


def expected_job(tree, path):
    comps = path.split(os.sep)
    idx = [i for i, c in enumerate(comps) if model.is_id(c)]
    if not idx:
        return None
    i = idx[-1]
    parent = os.sep.join(comps[:i]) or os.sep
    proj = nearest_project(tree, parent)
    if proj is None:
        return None
    return proj, comps[i]


def run_case(ctx, case):
    import signac

    rng = random.Random(case["seed"])
    root = os.path.realpath(ctx.scratch("t"))
    tree = Tree(root, rng)
    tree.build()
    # collect query paths
    queries = []
    for dp, dn, fn in os.walk(root, followlinks=False):
        if os.sep + ".signac" in dp:
            continue
        queries.append(dp)
    for link, proj, jid in tree.links:
        queries.append(link)
        if os.path.isdir(os.path.join(link, "data")):
            queries.append(os.path.join(link, "data", "more"))
    queries.append(os.path.join(root, "does", "not", "exist"))
    if tree.projects:
        queries.append(os.path.join(tree.projects[0], "missing_dir"))
    old_cwd = os.getcwd()

    def sweep(phase):
        for q in queries:
            exists = os.path.exists(q)
            for mode in ("abs", "rel-root", "cwd", "rel-parent", "abs-dotdot", "rel-dotdot"):
                if mode == "abs":
                    arg, base = q, None
                elif mode in ("abs-dotdot", "rel-dotdot"):
                    # the same directory reached by climbing out of one of its sub-directories
                    if not exists or not os.path.isdir(q) or os.path.realpath(q) != q:
                        continue
                    kids = sorted(d for d in os.listdir(q) if os.path.isdir(os.path.join(q, d))
                                  and not os.path.islink(os.path.join(q, d)))
                    if not kids:
                        continue
                    kid = kids[len(q) % len(kids)]
                    if mode == "abs-dotdot":
                        arg, base = os.path.join(q, kid, os.pardir), None
                    else:
                        os.chdir(os.path.join(q, kid))
                        arg, base = os.pardir, os.getcwd()
                elif mode == "rel-root":
                    os.chdir(root)
                    arg, base = os.path.relpath(q, root), root
                elif mode == "cwd":
                    if not exists or not os.path.isdir(q):
                        continue
                    os.chdir(q)
                    arg, base = None, os.getcwd()
                else:
                    par = os.path.dirname(q)
                    if not os.path.isdir(par):
                        continue
                    os.chdir(par)
                    arg, base = os.path.basename(q), os.getcwd()
                if arg is None:
                    lexical = os.getcwd()
                elif os.path.isabs(arg):
                    lexical = os.path.normpath(arg)
                else:
                    lexical = os.path.normpath(os.path.join(os.getcwd(), arg))
                # ---- get_project
                want = nearest_project(tree, lexical) if exists else None
                got, err = sig.exc_name(signac.get_project, arg) if arg is not None else sig.exc_name(signac.get_project)
                ctx.monitor("get_project_nearest")
                if want is None:
                    ctx.monitor("lookup_error_not_guess")
                    if not isinstance(err, LookupError):
                        ctx.violation("get_project-guesses", "get_project returned / raised something else where no project encloses the path",
                                      {"path": lexical, "exists": exists, "got": getattr(got, "path", None), "err": repr(err),
                                       "projects": tree.projects})
                        return True
                elif err is not None or got.path != want:
                    ctx.violation("get_project-not-nearest", "get_project did not return the nearest enclosing project",
                                  {"path": lexical, "mode": mode, "want": want, "got": getattr(got, "path", None), "err": repr(err), "phase": phase})
                    return True
                # ---- search=False
                ctx.monitor("get_project_nosearch")
                got2, err2 = sig.exc_name(signac.get_project, arg, search=False) if arg is not None else sig.exc_name(signac.get_project, search=False)
                want2 = lexical if (exists and nearest_project(tree, lexical) == lexical) else None
                if want2 is None:
                    if not isinstance(err2, LookupError):
                        ctx.violation("get_project-nosearch-walks-up", "get_project(search=False) answered for a directory that is not itself a project",
                                      {"path": lexical, "got": getattr(got2, "path", None), "err": repr(err2)})
                        return True
                elif err2 is not None or got2.path != want2:
                    ctx.violation("get_project-nosearch-wrong", "get_project(search=False) wrong for a project directory",
                                  {"path": lexical, "got": getattr(got2, "path", None), "err": repr(err2)})
                    return True
                # ---- get_job
                ctx.monitor("get_job_innermost")
                wj = expected_job(tree, lexical) if exists else None
                gj, ej = sig.exc_name(signac.get_job, arg) if arg is not None else sig.exc_name(signac.get_job)
                if wj is None:
                    ctx.monitor("lookup_error_not_guess")
                    if not isinstance(ej, LookupError):
                        ctx.violation("get_job-guesses", "get_job returned / raised something else where no job directory contains the path",
                                      {"path": lexical, "got": (gj.id, gj.project.path) if gj is not None else None, "err": repr(ej)})
                        return True
                else:
                    if ej is not None or gj.id != wj[1] or gj.project.path != wj[0]:
                        ctx.violation("get_job-not-innermost", "get_job did not return the innermost job directory with its project",
                                      {"path": lexical, "mode": mode, "want": wj,
                                       "got": (gj.id, gj.project.path) if gj is not None else None, "err": repr(ej)})
                        return True
                    # also through the class method of the found project
                    gj2, ej2 = sig.exc_name(gj.project.get_job, lexical)
                    if ej2 is not None or gj2.id != wj[1]:
                        ctx.violation("get_job-not-innermost", "Project.get_job disagrees", {"path": lexical, "err": repr(ej2)})
                        return True
                enclosing = 0
                p = lexical
                while p != os.path.dirname(p):
                    enclosing += p in tree.projects
                    p = os.path.dirname(p)
                if enclosing >= 2 or wj is not None:
                    ctx.distinct("nontrivial", [case["seed"], os.path.relpath(lexical, root), mode])
        return False

    try:
        if sweep("built"):
            return
        # the layout changes while the process lives: a project appears nearer to paths already asked about, then one
        # disappears; every answer must describe the layout at the time of the call
        if case["seed"] % 2 == 0:
            cands = [q for q in queries if os.path.isdir(q) and not os.path.islink(q) and os.path.realpath(q) == q
                     and q not in tree.projects and os.path.basename(q) != "workspace" and q != root
                     and not model.is_id(os.path.basename(q))]
            if cands:
                newp = rng.choice(sorted(cands))
                os.chdir(old_cwd)
                signac.init_project(newp)
                tree.projects.append(newp)
                ctx.monitor("layout_changed_between_queries")
                if sweep("project-added"):
                    return
                if case["seed"] % 4 == 0:
                    import shutil
                    shutil.rmtree(os.path.join(newp, ".signac"))
                    tree.projects.remove(newp)
                    ctx.monitor("layout_changed_between_queries")
                    if sweep("project-removed"):
                        return
        os.chdir(old_cwd)
        # ---- init_project idempotence
        for proj in tree.projects:
            before = model.snapshot(proj, with_mtime=True)
            with fsmon.Session([root], readonly=[root]) as s:
                p, e = sig.exc_name(signac.init_project, proj)
            ctx.monitor("init_project_idempotent")
            after = model.snapshot(proj, with_mtime=True)
            if e is not None or p.path != proj or s.policy_hits or before != after:
                ctx.violation("init_project-not-idempotent", "init_project on an existing project changed something",
                              {"project": proj, "err": repr(e), "events": [h[1] for h in s.policy_hits][:5],
                               "diff": model.snap_diff(before, after)})
                return
            # via cwd
            os.chdir(proj)
            with fsmon.Session([root], readonly=[root]) as s:
                p, e = sig.exc_name(signac.init_project)
            os.chdir(old_cwd)
            if e is not None or os.path.realpath(p.path) != os.path.realpath(proj) or s.policy_hits:
                ctx.violation("init_project-not-idempotent", "init_project() in an existing project directory changed something",
                              {"project": proj, "err": repr(e), "events": [h[1] for h in s.policy_hits][:5]})
                return
    finally:
        os.chdir(old_cwd)
    ctx.sample({"projects": [os.path.relpath(p, root) for p in tree.projects], "jobdirs": len(tree.jobdirs),
                "links": len(tree.links), "queries": len(queries)})
