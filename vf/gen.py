"""Value / state point generators shared by the property modules."""

import itertools

ATOMS = [None, True, False, 0, 1, -1, 2**53 - 1, 1.0, 0.5, -0.0, 1e-7, 1e22, "", "1", "é", "  "]
SMALL_ATOMS = [None, True, 0, 1, 1.0, "1", "é"]
KEYS = ["a", "b", "k é", "", "B"]


def enum_values(depth, atoms=None, keys=None, max_len=2):
    """All JSON values up to `depth` nesting levels over a small alphabet (depth 0 = atoms)."""
    atoms = SMALL_ATOMS if atoms is None else atoms
    keys = KEYS[:2] if keys is None else keys
    if depth == 0:
        yield from atoms
        return
    yield from atoms
    inner = list(enum_values(depth - 1, atoms[:3], keys, max_len))
    yield []
    yield {}
    for n in range(1, max_len + 1):
        for combo in itertools.product(inner, repeat=n):
            yield list(combo)
    for n in range(1, min(max_len, len(keys)) + 1):
        for ks in itertools.combinations(keys, n):
            for combo in itertools.product(inner, repeat=n):
                yield dict(zip(ks, combo))


def rand_value(rng, depth, atoms=None, keys=None):
    atoms = ATOMS if atoms is None else atoms
    keys = KEYS if keys is None else keys
    r = rng.random()
    if depth <= 0 or r < 0.45:
        c = rng.random()
        if c < 0.7:
            return rng.choice(atoms)
        if c < 0.8:
            return rng.randint(-(2**53) + 1, 2**53 - 1)
        if c < 0.9:
            return rng.choice([rng.uniform(-1e3, 1e3), rng.random() * 10 ** rng.randint(-20, 20)])
        return "".join(rng.choice("ab é中\"\\/\n\t1.{}[]") for _ in range(rng.randint(0, 6)))
    if r < 0.7:
        return [rand_value(rng, depth - 1, atoms, keys) for _ in range(rng.randint(0, 3))]
    n = rng.randint(0, min(4, len(keys)))
    ks = rng.sample(keys, n)
    return {k: rand_value(rng, depth - 1, atoms, keys) for k in ks}


def rand_sp(rng, depth=3, atoms=None, keys=None, min_keys=0):
    keys = KEYS if keys is None else keys
    n = rng.randint(min_keys, min(4, len(keys)))
    ks = rng.sample(keys, n)
    return {k: rand_value(rng, depth - 1, atoms, keys) for k in ks}


def permutations_of_mapping(d, rng=None, limit=24):
    """The same nested value with every key insertion order at every level (capped)."""
    if isinstance(d, dict):
        child_variants = {k: list(permutations_of_mapping(v, rng, 4)) for k, v in d.items()}
        orders = list(itertools.permutations(d.keys()))
        if len(orders) > limit:
            orders = orders[:1] + (rng.sample(orders[1:], limit - 1) if rng else orders[1:limit])
        n = 0
        for order in orders:
            # vary the children together (i-th variant of each child), not the full product
            width = max([len(v) for v in child_variants.values()] or [1])
            for i in range(width):
                yield {k: child_variants[k][i % len(child_variants[k])] for k in order}
                n += 1
                if n >= limit:
                    return
    elif isinstance(d, list):
        variants = [list(permutations_of_mapping(v, rng, 3)) for v in d]
        width = max([len(v) for v in variants] or [1])
        for i in range(min(width, limit)):
            yield [v[i % len(v)] for v in variants]
    else:
        yield d
