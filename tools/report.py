#!/venv/bin/python
"""Print the findings and seeded-change tables for DESIGN.md (sections 8 and 10.2)."""
import json, os, subprocess
HERE = os.path.dirname(os.path.dirname(os.path.abspath(__file__)))
f = json.load(open(os.path.join(HERE, "known_findings.json")))["findings"]
commits = {}
for x in f:
    if x["status"] == "fixed":
        commits.setdefault(x["commit"], []).append(x)
log = subprocess.run(["git", "-C", "/repo", "log", "--format=%h %s", "--reverse"], capture_output=True, text=True).stdout.splitlines()
print("### Fixed (one `fix:` commit each, oldest first)\n")
print("| commit | subject | properties / mechanism keys |"); print("|---|---|---|")
for line in log:
    h, subj = line.split(" ", 1)
    if not subj.startswith("fix:"):
        continue
    ks = commits.get(h, [])
    print(f"| {h} | {subj[5:]} | " + "; ".join(f"{k['property']} `{k['key']}`" for k in ks) + " |")
print("\n### Open (KNOWN-FINDING lines)\n")
print("| property | key | what fails |"); print("|---|---|---|")
for x in f:
    if x["status"] == "open":
        print(f"| {x['property']} | `{x['key']}` | {x['what']} |")
print("\n### Seeded changes\n")
print("| id | breaks | what was changed | needs | result |"); print("|---|---|---|---|---|")
sd = os.path.join(HERE, "seeded")
for n in sorted(os.listdir(sd)):
    if not os.path.isdir(os.path.join(sd, n)):
        continue
    m = json.load(open(os.path.join(sd, n, "meta.json")))
    print(f"| {n} | {m.get('property')} | {m.get('summary','')[:260]} | {m.get('needs','')[:200]} | {m.get('note','')[:330]} |")
