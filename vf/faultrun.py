"""Crash / I/O-error enumeration over observed file-system steps.

A *step* is an audited FS call under the monitored root (fsmon) or a write() on a file opened
for writing under it (files are wrapped by a forwarding proxy inside the child only). An
operation is first executed once in a forked child to learn its step list; it is then re-run
in a fresh child once per (step, fault):

  crash      os._exit(77) immediately before step k           (mutating steps and writes)
  torn:n     at write step k: write the first n bytes, flush, os._exit(77)
  err:E      raise OSError(E) instead of performing step k     (any step, once)

The child really dies (no cleanup handlers, no buffer flush) or really gets the OSError;
the parent never ran the operation, so whatever it inspects afterwards is what a fresh
session would find.
"""

import builtins
import errno
import io
import json
import os
import shutil
import sys
import traceback

from . import fsmon

EXIT_CRASH = 77


def _safe_str(e):
    """str(e), for exception classes whose own __str__ is broken."""
    try:
        return str(e)
    except Exception:
        return repr(getattr(e, "args", "?"))


class _FileProxy:
    """Forwarding proxy so that write() calls become steps."""

    def __init__(self, real, path, ctl):
        object.__setattr__(self, "_real", real)
        object.__setattr__(self, "_path", path)
        object.__setattr__(self, "_ctl", ctl)

    def write(self, data):
        self._ctl.on_write(self, data)
        return self._real.write(data)

    def writelines(self, lines):
        for line in lines:
            self.write(line)

    def __getattr__(self, name):
        return getattr(self._real, name)

    def __setattr__(self, name, value):
        setattr(self._real, name, value)

    def __enter__(self):
        self._real.__enter__()
        return self

    def __exit__(self, *a):
        return self._real.__exit__(*a)

    def __iter__(self):
        return iter(self._real)

    def __next__(self):
        return next(self._real)


class Controller:
    """Lives in the child: counts steps, applies the fault plan."""

    def __init__(self, root, plan, include_reads):
        self.root = os.path.normpath(root)
        self.plan = plan  # None | ("crash", k) | ("torn", k, n) | ("err", k, errno)
        self.include_reads = include_reads
        self.steps = []
        self.fired = False
        self.armed = False

    # called by fsmon for every event under root
    def on_event(self, ev):
        if not self.armed:
            return
        if not ev.mut and not self.include_reads:
            return
        k = len(self.steps)
        self.steps.append({"k": k, "ev": ev.brief(self.root), "mut": ev.mut, "kind": ev.kind})
        self._maybe_fault(k, ev.mut, None, None)

    def on_write(self, proxy, data):
        if not self.armed:
            return
        k = len(self.steps)
        n = len(data)
        self.steps.append({"k": k, "ev": f"write({os.path.relpath(proxy._path, self.root)} [{n}B])", "mut": True,
                           "kind": "write", "len": n})
        self._maybe_fault(k, True, proxy, data)

    def _maybe_fault(self, k, mut, proxy, data):
        p = self.plan
        if p is not None and p[0] == "errs":
            # several injected errors: [[k, errno], ...] indexed by this run's own step counter
            for kk, eno in p[1]:
                if kk == k:
                    self.fired = True
                    self.nfired = getattr(self, "nfired", 0) + 1
                    raise OSError(eno, os.strerror(eno) + " [injected]")
            return
        if p is None or self.fired or p[1] != k:
            return
        self.fired = True
        if p[0] == "crash":
            os._exit(EXIT_CRASH)
        if p[0] == "torn":
            if proxy is not None:
                n = min(p[2], len(data))
                proxy._real.write(data[:n])
                try:
                    proxy._real.flush()
                except Exception:
                    pass
            os._exit(EXIT_CRASH)
        if p[0] == "err":
            raise OSError(p[2], os.strerror(p[2]) + " [injected]")


def _install_open_patch(ctl):
    real_open = builtins.open

    def patched(file, mode="r", *a, **kw):
        f = real_open(file, mode, *a, **kw)
        try:
            if isinstance(file, (str, bytes, os.PathLike)) and any(c in mode for c in "wax+"):
                path = os.path.normpath(os.path.abspath(os.fspath(file)))
                if isinstance(path, bytes):
                    path = os.fsdecode(path)
                if path == ctl.root or path.startswith(ctl.root + os.sep):
                    return _FileProxy(f, path, ctl)
        except Exception:
            pass
        return f

    builtins.open = patched
    io.open = patched
    shutil._USE_CP_SENDFILE = False
    if hasattr(shutil, "_HAS_FCOPYFILE"):
        shutil._HAS_FCOPYFILE = False


def _install_stat_patch(ctl):
    """os.stat / os.lstat raise no audit event; count them as (read) steps so that they can be made to fail.
    os.path.isfile / isdir / exists / islink go through these module attributes."""
    real = {"stat": os.stat, "lstat": os.lstat}

    def make(name):
        def patched(path, *a, **kw):
            if ctl.armed and isinstance(path, (str, bytes, os.PathLike)):
                try:
                    ap = os.path.normpath(os.path.join(os.getcwd(), os.fsdecode(os.fspath(path))))
                except Exception:
                    ap = None
                if ap is not None and (ap == ctl.root or ap.startswith(ctl.root + os.sep)):
                    k = len(ctl.steps)
                    ctl.steps.append({"k": k, "ev": f"{name}({os.path.relpath(ap, ctl.root)})", "mut": False, "kind": "stat"})
                    ctl._maybe_fault(k, False, None, None)
            return real[name](path, *a, **kw)
        return patched

    os.stat = make("stat")
    os.lstat = make("lstat")


def run(setup, op, root, plan=None, include_reads=False, deterministic_uuid=True, include_stats=False):
    """Fork; child: setup(root); arm; op(root). Returns dict(status, outcome, steps, error)."""
    rfd, wfd = os.pipe()
    sys.stdout.flush()
    sys.stderr.flush()
    pid = os.fork()
    if pid == 0:
        # ---------------- child
        code = 0
        try:
            os.close(rfd)
            ctl = Controller(root, plan, include_reads)
            if deterministic_uuid:
                import uuid

                counter = [0]

                def fake_uuid4():
                    counter[0] += 1
                    return uuid.UUID(int=counter[0])

                uuid.uuid4 = fake_uuid4
            _install_open_patch(ctl)
            state = setup(root)
            if include_stats:
                _install_stat_patch(ctl)
            sess = fsmon.Session([root], on_step=ctl.on_event)
            result = {"outcome": None, "error": None}
            with sess:
                ctl.armed = True
                try:
                    op(root, state)
                    result["outcome"] = "returned"
                except BaseException as e:  # noqa
                    result["outcome"] = "raised"
                    result["error"] = [type(e).__name__, _safe_str(e)[:300], getattr(e, "errno", None)]
                ctl.armed = False
            result["steps"] = ctl.steps
            result["fired"] = ctl.fired
            result["nfired"] = getattr(ctl, "nfired", 1 if ctl.fired else 0)
            result["policy_hits"] = sess.policy_hits
            os.write(wfd, json.dumps(result).encode())
        except BaseException:  # harness failure inside the child
            try:
                os.write(wfd, json.dumps({"outcome": "harness-error", "error": traceback.format_exc()[-2000:], "steps": []}).encode())
            except Exception:
                pass
            code = 3
        finally:
            os._exit(code)
    # ---------------- parent
    os.close(wfd)
    chunks = []
    while True:
        b = os.read(rfd, 65536)
        if not b:
            break
        chunks.append(b)
    os.close(rfd)
    _, status = os.waitpid(pid, 0)
    exitcode = os.waitstatus_to_exitcode(status)
    data = b"".join(chunks)
    if data:
        res = json.loads(data.decode())
    else:
        res = {"outcome": "crashed" if exitcode == EXIT_CRASH else f"died:{exitcode}", "steps": None, "error": None}
    res["exitcode"] = exitcode
    return res


ERRNOS = {"EIO": errno.EIO, "ENOSPC": errno.ENOSPC, "EACCES": errno.EACCES, "EXDEV": errno.EXDEV, "EROFS": errno.EROFS}


def torn_sizes(n):
    """Prefix classes of an n-byte write: 0, 1, middle, n-1."""
    return sorted({0, 1, n // 2, max(0, n - 1)} & set(range(0, max(n, 1))))
