"""C16 - export then import reproduces the project; nothing dropped, merged or misplaced."""

import contextlib
import copy
import io
import os
import shutil
import tarfile
import tempfile
import zipfile

from .. import fsmon, model, sig

PROP = "C16"
LEVEL = "exploration"
MONITORS = ["import_with_callable_schema", "roundtrip_equal", "raise_means_nothing_copied", "source_readonly", "export_contained", "import_contained",
            "map_injective_prefix_free", "existing_job_untouched", "schema_string_types"]
RULE = (
    "Projects of 0-12 jobs over state point families built to collide textually (a in 1/10/100, 1/1.0/'1', "
    "True/'True'; keys that prefix each other; nested keys; heterogeneous key sets; strings with spaces, dots, "
    "path separators, '..', empty) with documents and nested files x target kind (directory, .zip, .tar, .tar.gz, "
    ".tar.bz2, .tar.xz) x path spec (None, False, format strings incl. {{auto}} / {{auto:_}} / {job.id}, callables) "
    "x import schema (None, matching schema string with and without state point files, callable). Export and "
    "import run under the FS monitor (source read-only; export writes only beneath the target; import writes only "
    "inside workspace/<32-hex id>/ of the importing project and the temp directory, which must be gone afterwards). "
    "Either the round trip reproduces ids, state points, documents and file trees exactly, or a call raised and "
    "no job data had been copied. Non-trivial and distinct = distinct (family, target, path, schema) cases with >= 2 jobs."
)
RULE += (
    " " + "Added later: table-driven callable schemas built from the export mapping; a family holding the empty state point; import origins spelt with '/./' or a trailing separator, beside the importing project under an extending name, or inside it; payload names beyond Latin-1 / sorting before '/' / dot-directories; tar archives exported to twice."
    " In every third case DEBUG logging is effective for the package."
)
ASSUMPTIONS = [
    "tempfile.tempdir is pointed at a monitored scratch directory for the duration of a case.",
    "Schema strings are only demanded to parse word-like strings, integers, plain decimals and booleans.",
]
MANIFEST = {"technique": 'runtime monitoring: FS-call monitor (P-readonly source, P-contain target / job directories / temp dir) + round-trip oracle', "engine": 'fs-call monitor (audit hook)'}
TIME_CAP = {"quick": 80, "thorough": 1500}

TARGETS = ["dir", ".zip", ".tar", ".tar.gz", ".tar.bz2", ".tar.xz"]

FAMILIES = {
    "ints": [{"a": 1}, {"a": 10}, {"a": 100}, {"a": 2}],
    "typed": [{"a": 1}, {"a": 1.0}, {"a": "1"}, {"a": True}, {"a": "True"}, {"a": 2}],
    "boolint": [{"a": True}, {"a": 1}, {"a": 0}, {"a": False}],
    "prefixkeys": [{"a": 1}, {"ab": 1}, {"a": 1, "ab": 2}, {"a": 2, "ab": 1}, {"ab": 12}],
    "nested": [{"n": {"x": 1}}, {"n": {"x": 2}}, {"n": {"x": 1, "y": 0}}, {"n": {"x": 10}, "a": 1}],
    "hetero": [{"a": 1}, {"a": 1, "b": 2}, {"b": 3}, {"a": 2, "c": "z"}, {"c": "z"}],
    "two": [{"a": 1, "b": "x"}, {"a": 1, "b": "y"}, {"a": 2, "b": "x"}, {"a": 2, "b": "y"}, {"a": 10, "b": "xy"}],
    "strings": [{"a": "x y"}, {"a": "x.y"}, {"a": "x"}, {"a": "é"}, {"a": "x_y"}, {"a": ""}],
    "seps": [{"a": "x/y"}, {"a": ".."}, {"a": "x"}, {"a": "."}, {"a": "y/.."}],
    "floats": [{"a": 0.5, "b": True}, {"a": 2.25, "b": False}, {"a": 10.0, "b": True}, {"a": 1.0, "b": False}],
    "single": [{"a": 1, "b": [1, 2]}],
    "empty": [],
    "leafnode": [{"name": "sim"}, {"name": "sim.old"}, {"name": "sim/final"}, {"name": "sim-1"}, {"name": "sim/final/x"},
                 {"name": "sim+"}],
    "lists": [{"a": [1, 2]}, {"a": [1, 3]}, {"a": [1]}],
    "withempty": [{}, {"a": 1}, {"a": 1, "b": 2}, {"b": 0}, {"a": 0}],
}
SCHEMA_FAMILIES = {
    # family -> (path spec, schema string)
    "ints": ("a/{a}", "a/{a:int}"),
    "two": ("a/{a}/b/{b}", "a/{a:int}/b/{b}"),
    "floats": ("a_{a}/b_{b}", "a_{a:float}/b_{b:bool}"),
}
PATHS = [None, False, "a/{a}", "{a}", "{name}", "n/{name}", "val_{a}", "x/{{auto}}", "{{auto:_}}", "{job.id}", "id/{job.id}/a/{a}",
         "callable-id", "callable-a"]


def gen_cases(ctx):
    rng = ctx.grng("c16")
    n = ctx.budget(16000, 160000)
    fams = sorted(FAMILIES)
    for i in range(n):
        fam = rng.choice(fams)
        sps = FAMILIES[fam]
        k = rng.randint(min(2, len(sps)), len(sps)) if sps else 0
        chosen = rng.sample(range(len(sps)), k)
        target = rng.choice(TARGETS)
        mode = rng.choice(["roundtrip", "roundtrip", "roundtrip", "schema", "existing"])
        path = rng.choice(PATHS)
        if mode == "schema":
            fam = rng.choice(sorted(SCHEMA_FAMILIES))
            sps = FAMILIES[fam]
            chosen = rng.sample(range(len(sps)), rng.randint(2, len(sps)))
            path = SCHEMA_FAMILIES[fam][0]
        strip = rng.random() < 0.5
        table = mode == "roundtrip" and rng.random() < 0.25
        if ctx.take(i):
            yield {"family": fam, "jobs": sorted(chosen), "target": target, "path": path, "mode": mode,
                   "strip_sp_files": strip, "table_schema": table}


def path_arg(spec):
    if spec == "callable-id":
        return lambda job: os.path.join("by_id", job.id)
    if spec == "callable-a":
        return lambda job: "a_" + str(job.sp().get("a", "none"))
    return spec


def project_content(path):
    """{id: {'sp', 'doc', 'files'}} read raw from disk."""
    return model.raw_jobs(path)


def target_is_empty(target):
    if not os.path.lexists(target):
        return True
    if os.path.isdir(target):
        for _dp, _dn, fns in os.walk(target):
            if fns:
                return False
        return True
    try:
        if zipfile.is_zipfile(target):
            with zipfile.ZipFile(target) as z:
                return not z.namelist()
        try:
            with tarfile.open(target) as t:
                return not [m for m in t.getmembers() if m.name not in ("", ".")]
        except tarfile.ReadError:
            return True  # an archive that was opened and closed without any member
    except Exception:
        return False
    return os.path.getsize(target) == 0


def prefix_free(paths):
    ps = sorted(os.path.normpath(p) for p in paths)
    if len(set(ps)) != len(ps):
        return False
    for a in ps:
        for b in ps:
            if a != b and (b.startswith(a + os.sep) or a == "."):
                return False
    return True


def run_case(ctx, case):
    import signac
    from signac.errors import DestinationExistsError

    sps = [copy.deepcopy(FAMILIES[case["family"]][k]) for k in case["jobs"]]
    src = sig.new_project(ctx, "src")
    for k, sp in enumerate(sps):
        job = src.open_job(sp).init()
        job.document["k"] = k
        job.document["nested"] = {"v": [k, "é"]}
        sig.write_file(job.fn("data.txt"), f"data-{k}")
        sig.write_file(job.fn("sub/deep/x.bin"), bytes([k % 250]) * 33)
        if k % 2 == 0:
            # data that itself looks like a signac job (e.g. a nested project kept inside the job): it belongs to
            # this job and must neither be imported as a job of its own nor confuse the importer
            sig.write_file(job.fn("analysis/workspace/inner/signac_statepoint.json"), '{"inner": %d}' % k)
            sig.write_file(job.fn("analysis/workspace/inner/result.txt"), "inner-result")
        if k % 3 == 0:
            sig.write_file(job.fn("nested_sp/signac_statepoint.json"), '{"inner1": %d}' % k)
        if k % 3 == 1:
            # names from beyond Latin-1, names that sort before '/', a name with a space and a leading dot
            sig.write_file(job.fn("Δt.txt"), "delta")
            sig.write_file(job.fn("結果/値.csv"), "1,2")
            sig.write_file(job.fn("!first #1.log"), "bang")
            sig.write_file(job.fn(".hidden/x"), "h")
            sig.write_file(job.fn("..notes"), "two dots")
            sig.write_file(job.fn("..data/x"), "two dots dir")
    want = project_content(src.path)
    base = ctx.scratch("exp")
    tmp = os.path.join(base, "tmp")
    os.makedirs(tmp)
    target = os.path.join(base, "out" + ("" if case["target"] == "dir" else case["target"]))
    src_before = model.snapshot(src.path, with_mtime=True)
    old_tmp = tempfile.tempdir
    tempfile.tempdir = tmp
    try:
        # ------------------------------------------------------------ export
        with fsmon.Session([src.path, base], readonly=[src.path], contain=[src.path, target, tmp]) as s:
            with contextlib.redirect_stderr(io.StringIO()):
                mapping, err = sig.exc_name(src.export_to, target=target, path=path_arg(case["path"]))
        ctx.monitor("source_readonly")
        ro = [h for h in s.policy_hits if h[0] == "readonly"]
        if ro or model.snapshot(src.path, with_mtime=True) != src_before:
            ctx.violation("export-mutates-source", "export wrote to the source project", {"hits": ro[:4], "case": case})
            return
        ctx.monitor("export_contained")
        out = [h for h in s.policy_hits if h[0] == "contain"]
        if out:
            ctx.violation("export-writes-outside-target", "export wrote outside its target", {"hits": out[:4]})
            return
        if err is not None:
            ctx.monitor("raise_means_nothing_copied")
            if not target_is_empty(target):
                key = "export-fails-after-copying-jobs"
                if case["path"] in (None, "x/{{auto}}", "{{auto:_}}") and isinstance(err, (FileExistsError, RuntimeError)):
                    key = "auto-path-collision-detected-late"
                ctx.violation(key, f"export raised {type(err).__name__} after job data had been copied",
                              {"error": repr(err)[:300], "sps": sps, "path": case["path"], "target": case["target"],
                               "left_behind": sorted(model.snapshot(target))[:6] if os.path.isdir(target) else "archive"})
            else:
                ctx.count("export_refused_cleanly")
            return
        ctx.monitor("map_injective_prefix_free")
        if len(mapping) != len(sps) or not prefix_free(mapping.values()):
            ctx.violation("export-paths-not-injective", "the returned src->dst map is not injective / prefix-free / complete",
                          {"map_values": sorted(mapping.values()), "sps": sps, "path": case["path"]})
            return

        if case["target"].startswith(".tar") and case["mode"] == "roundtrip" and case["path"] is not False \
                and not case.get("table_schema") and (len(case["jobs"]) + len(str(case["path"]))) % 3 == 0:
            # the same archive is exported to once more with another layout (tar targets are appended to): every job is
            # now in it twice, and the import has to notice before it copies anything
            with contextlib.redirect_stderr(io.StringIO()):
                _m2, e2 = sig.exc_name(src.export_to, target=target, path=False)
            if e2 is None:
                ctx.count("archives_exported_to_twice")
        # ------------------------------------------------------------ import
        dst = sig.new_project(ctx, "dst")
        schema = None
        origin = target
        spell = (len(case["jobs"]) + len(str(case["path"])) + len(case["target"])) % 4
        if spell == 1:
            origin = os.path.join(os.path.dirname(target), ".", os.path.basename(target))  # ..././name
        elif spell == 2 and case["target"] == "dir":
            origin = target + os.sep
        if spell == 3 and case["target"] == "dir" and os.path.isdir(target):
            # the exported tree lies next to the importing project under a name that extends the project's own, or
            # inside the project directory (the documented `cd project && signac import` situation)
            import shutil

            origin = dst.path + "_export" if len(case["jobs"]) % 2 else os.path.join(dst.path, "incoming")
            shutil.copytree(target, origin, symlinks=True)
            ctx.count("import_origin_beside_or_inside_project")
        if origin != target:
            ctx.count("import_origin_spelt_unnormalised")
        if case["mode"] == "schema":
            schema = SCHEMA_FAMILIES[case["family"]][1]
            if case["family"] == "ints" and len(case["jobs"]) % 2 == 0:
                import re

                def schema(path, _re=re.compile(r"(?:^|/)a/([+-]?[0-9]+)$")):
                    # a user-written schema function: path -> state point (None = not a job directory)
                    m = _re.search(path.replace(os.sep, "/"))
                    return {"a": int(m.group(1))} if m else None
            if case["strip_sp_files"] and case["target"] == "dir":
                for rel in mapping.values():  # only the jobs' own state point files, not payload that looks like one
                    fn = os.path.join(target, rel, model.SP_FILE)
                    if os.path.exists(fn):
                        os.remove(fn)
        if case.get("table_schema") and all(os.path.normpath(rel) not in ("", ".") for rel in mapping.values()):
            # a correct user-written schema function for exactly this layout: exported path -> state point
            table = {os.path.normpath(rel): copy.deepcopy(src.open_job(id=jid).statepoint())
                     for jid, rel in ((os.path.basename(os.path.normpath(k)), v) for k, v in mapping.items())}

            def schema(path, _table=table):
                p = os.path.normpath(path)
                for rel, sp in _table.items():
                    if p == rel or p.endswith(os.sep + rel):
                        return copy.deepcopy(sp)
                return None
            ctx.monitor("import_with_callable_schema")
        pre_id = None
        if case["mode"] == "existing" and sps:
            pre = dst.open_job(copy.deepcopy(sps[0])).init()
            pre.document["mine"] = True
            sig.write_file(pre.fn("own.txt"), "own")
            pre_id = pre.id
        dst_before = model.snapshot(dst.path)
        with fsmon.Session([dst.path, base, src.path], readonly=[src.path, target]) as s2:
            with contextlib.redirect_stderr(io.StringIO()):
                imap, ierr = sig.exc_name(dst.import_from, origin=origin, schema=schema)
        ctx.monitor("import_contained")
        ws = os.path.join(dst.path, "workspace")
        bad = []
        for ev in s2.mutating():
            for p in ev.paths():
                if fsmon.Session.under(p, tmp):
                    continue
                if p == ws:
                    continue
                if fsmon.Session.under(p, ws):
                    rel = os.path.relpath(p, ws).split(os.sep)
                    if model.is_id(rel[0]):
                        continue
                bad.append(ev.brief(base))
        if bad:
            key = "import-writes-outside-job-directories"
            ctx.violation(key, "import wrote outside workspace/<id>/ of the importing project",
                          {"events": bad[:6], "sps": sps, "target": case["target"], "path": case["path"]})
            return
        if os.listdir(tmp):
            ctx.violation("import-leaves-temp-files", "temporary extraction directory not removed", {"left": os.listdir(tmp)})
            return
        got = project_content(dst.path)
        if case["mode"] == "existing" and sps:
            ctx.monitor("existing_job_untouched")
            after_pre = {k: v for k, v in model.snapshot(dst.path).items() if k.startswith(os.path.join("workspace", pre_id))}
            before_pre = {k: v for k, v in dst_before.items() if k.startswith(os.path.join("workspace", pre_id))}
            if after_pre != before_pre:
                ctx.violation("import-modified-existing-job", "import changed a job that already existed",
                              {"diff": model.snap_diff(before_pre, after_pre), "raised": repr(ierr)})
                return
            if ierr is None:
                ctx.violation("import-over-existing-job-returned", "import returned although a job already existed",
                              {"target": case["target"]})
                return
            return
        if ierr is not None:
            ctx.monitor("raise_means_nothing_copied")
            if got:
                ctx.violation("import-fails-after-copying-jobs", f"import raised {type(ierr).__name__} after jobs had been imported",
                              {"error": repr(ierr)[:300], "imported": sorted(got), "sps": sps, "target": case["target"],
                               "path": case["path"]})
            else:
                ctx.count("import_refused_cleanly:" + type(ierr).__name__)
            return
        # ------------------------------------------------------------ compare
        if case["mode"] == "schema":
            ctx.monitor("schema_string_types")
        ctx.monitor("roundtrip_equal")
        problems = []
        if set(got) != set(want):
            problems.append(("ids", sorted(set(want) - set(got)), sorted(set(got) - set(want))))
        for jid in set(got) & set(want):
            g, w = got[jid], want[jid]
            if not model.typed_eq(g["sp"], w["sp"]):
                problems.append(("statepoint", jid, g["sp"], w["sp"]))
            if not model.typed_eq(g["doc"], w["doc"]):
                problems.append(("document", jid))
            if g["files"] != w["files"]:
                problems.append(("files", jid, model.snap_diff(w["files"], g["files"])))
        if problems:
            key = "roundtrip-differs"
            missing = problems[0][1] if problems[0][0] == "ids" else []
            if case["target"] == ".zip" and problems[0][0] == "ids" and missing:
                key = "zip-import-prefix-match-drops-jobs"
            if case["mode"] == "schema":
                key = "schema-string-parses-wrong-type"
            ctx.violation(key, "re-imported project differs from the source",
                          {"problems": problems[:4], "sps": sps, "target": case["target"], "path": case["path"],
                           "schema": schema if isinstance(schema, (str, type(None))) else "<callable>", "stray": sorted(os.listdir(ws))[:8]})
            return
        if len(sps) >= 2:
            ctx.distinct("nontrivial", case)
        ctx.sample({"family": case["family"], "n": len(sps), "target": case["target"], "path": case["path"],
                    "mode": case["mode"], "exported_to": sorted(mapping.values())[:3]})
    finally:
        tempfile.tempdir = old_tmp
