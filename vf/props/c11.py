"""C11 - crashes and I/O errors in lifecycle operations never lose data or forge a job."""

import json
import os
import shutil

from .. import faultrun, model, sig
from .c09 import classify_dir

PROP = "C11"
LEVEL = "fault_enumeration"
MONITORS = ["bystanders_identical", "payload_under_exactly_one_id", "invalid_dirs_reported_by_check",
            "no_forged_statepoint", "error_propagates_or_complete", "crash_points", "error_points",
            "refused_change_stays_refused"]
RULE = (
    "Lifecycle operations {init of a fresh job, init(force=True) of an existing job, state point key set, whole "
    "assignment, update_statepoint, move, clone, remove, clear, reset} x scenarios {fresh destination, colliding "
    "(initialised) destination, payload with document and nested files, second project} are first executed once "
    "in a forked child to record every file-system step (audited calls incl. reads and listings, and every write() "
    "on files opened for writing). The operation is then re-executed once per mutating step with the process "
    "killed before it (and with torn prefixes inside write steps), and once per step (reads included) x {EIO, "
    "ENOSPC, EACCES, EXDEV, EROFS} with the call failing. After each run a parent that never ran the operation "
    "checks the literal clauses: bystander jobs byte-identical; the affected job's complete payload under exactly "
    "one id directory (clone: source identical); every 32-hex directory validates or is named by check(); no "
    "directory validates with a state point outside {old, new}; an injected error either propagated (disk = pre, "
    "post or check()-detectable) or the call returned with the full post-state. Double faults (second error in the "
    "recovery path) are enumerated for the short operations and sampled for the others; for state point changes and move a follow-up "
    "edit through the same handle after a propagated error must not resurrect the refused change. Non-trivial and distinct = distinct (operation, scenario, step, fault) runs in "
    "which the fault actually fired."
)
RULE += (
    " " + 'Added later: a persistent cache from an earlier session, check() asked with and without it; os.stat / os.lstat as fault points; handles opened by id that read their state point as first step; removals through a handle that has used its document; after a failed removal whatever remains has its old content.'
    " In every third case DEBUG logging is effective for the package."
)
ASSUMPTIONS = [
    "A crash is process death with kernel state intact; ENOENT is not injected (signac reads it as 'not there').",
    "remove / clear / reset are removals: losing (part of) the affected job's data is their purpose; the other clauses still apply.",
]
MANIFEST = {
    "engine": "fault enumeration (fork + os._exit / OSError at FS steps)",
    "technique": "runtime monitoring: fault injection (process death, torn writes, errno) at every observed FS step of real lifecycle operations; oracle = fresh-session check() + raw tree classifier",
}
TIME_CAP = {"quick": 90, "thorough": 1500}

J = {"a": 1}
JNEW = {"a": 2}
B1 = {"b": 1}
B2 = {"b": 2, "n": {"x": [1, "é"]}}
K = {"k": 1}

OPS = ["init_fresh", "init_force", "spset", "assign", "update_sp", "move", "clone", "remove", "clear", "reset"]
DESTS = ["fresh", "collide"]


def EXHAUSTIVE(tier):
    return True


def gen_cases(ctx):
    i = 0
    nparts = 6
    for op in OPS:
        for dest in DESTS:
            if dest == "collide" and op not in ("spset", "assign", "update_sp", "move", "clone"):
                continue
            for part in range(nparts):
                if ctx.take(i):
                    yield {"op": op, "dest": dest, "part": part, "nparts": nparts}
                i += 1
    # a caller that handles the exception and keeps using the handle: one more state point edit after the fault
    for op in ("spset", "assign", "update_sp", "move"):
        for part in range(2):
            if ctx.take(i):
                yield {"op": op, "dest": "fresh", "followup": True, "part": part, "nparts": 2}
            i += 1
    # removals through a handle that has used its document before
    for op in ("remove", "clear", "reset"):
        if ctx.take(i):
            yield {"op": op, "dest": "fresh", "docloaded": True, "part": 0, "nparts": 1}
        i += 1
    # the same through a handle opened by id that has not read its state point yet
    for op in ("spset", "assign", "update_sp", "move"):
        for part in range(2):
            if ctx.take(i):
                yield {"op": op, "dest": "fresh", "followup": True, "lazy": True, "part": part, "nparts": 2}
            i += 1
        if ctx.take(i):
            yield {"op": op, "dest": "fresh", "lazy": True, "part": 0, "nparts": 1}
        i += 1
    # systematic double faults for the short operations: every first error, then every later step of the
    # run that this first error produces
    for op in ("init_force", "init_fresh", "reset"):
        for e1 in ("EIO", "EACCES"):
            if ctx.take(i):
                yield {"op": op, "dest": "fresh", "double_all": e1}
            i += 1
    # sampled double faults
    rng = ctx.grng("double")
    for _ in range(ctx.budget(60, 600)):
        op = rng.choice(["spset", "assign", "move", "init_fresh", "init_force"])
        case = {"op": op, "dest": rng.choice(DESTS) if op != "init_fresh" and op != "init_force" else "fresh",
                "double": [rng.randrange(40), rng.randrange(1, 6), rng.choice(sorted(faultrun.ERRNOS)),
                           rng.choice(sorted(faultrun.ERRNOS))]}
        if ctx.take(i):
            yield case
        i += 1


def payload(job, tag):
    job.document["marker"] = tag
    job.document["nested"] = {"v": [1, 2.5, None]}
    sig.write_file(job.fn("f.txt"), f"marker-{tag}")
    sig.write_file(job.fn("sub/g.bin"), tag.encode() * 30)


def make(case):
    import signac

    opname, dest = case["op"], case["dest"]

    def setup(root):
        p1 = signac.init_project(os.path.join(root, "p1"))
        p2 = signac.init_project(os.path.join(root, "p2"))
        for sp, tag in ((J, "J"), (B1, "B1"), (B2, "B2")):
            payload(p1.open_job(sp).init(), tag)
        payload(p2.open_job(B1).init(), "P2B1")
        if dest == "collide":
            if opname in ("move", "clone"):
                payload(p2.open_job(J).init(), "DEST")
            else:
                payload(p1.open_job(JNEW if opname != "update_sp" else {"a": 1, "c": 3}).init(), "DEST")
        # an earlier session left a persistent state point cache: check() after the fault is asked both with it and
        # without it (judge)
        if case.get("lazy"):
            # no cache anywhere: the handle is opened by id and has to read its state point file on first use, which
            # is then the first file-system step of the operation
            P1 = signac.Project(os.path.join(root, "p1"))
            P2 = signac.Project(os.path.join(root, "p2"))
            return {"p1": P1, "p2": P2, "job": P1.open_job(id=model.model_id(J))}
        p1.update_cache()
        p2.update_cache()
        P1 = signac.Project(os.path.join(root, "p1"))
        P2 = signac.Project(os.path.join(root, "p2"))
        h = P1.open_job(J)
        if case.get("docloaded"):
            h.document()  # the handle has used its document before
        return {"p1": P1, "p2": P2, "job": h}

    def op(root, st):
        job = st["job"]
        if opname == "init_fresh":
            st["p1"].open_job(K).init()
        elif opname == "init_force":
            job.init(force=True)
        elif opname == "spset":
            job.sp.a = 2
        elif opname == "assign":
            job.statepoint = dict(JNEW)
        elif opname == "update_sp":
            job.update_statepoint({"c": 3})
        elif opname == "move":
            job.move(st["p2"])
        elif opname == "clone":
            st["p2"].clone(job)
        elif opname == "remove":
            job.remove()
        elif opname == "clear":
            job.clear()
        elif opname == "reset":
            job.reset()

    new_sp = {"spset": JNEW, "assign": JNEW, "update_sp": {"a": 1, "c": 3}}.get(opname, J)
    return setup, op, new_sp


def noop(root, st):
    pass


def payload_of(dirsnap):
    """The marker payload part of a job directory snapshot (everything but the state point file)."""
    return {k: v for k, v in dirsnap.items() if k != model.SP_FILE and not k.endswith("~") and not k.startswith("._")}


def job_dirs(project_root):
    ws = os.path.join(project_root, "workspace")
    out = {}
    if os.path.isdir(ws):
        for name in sorted(os.listdir(ws)):
            d = os.path.join(ws, name)
            if os.path.isdir(d):
                out[name] = model.snapshot(d)
    return out


def judge(ctx, case, plan, res, root, pre, post, new_sp, wit):
    """Apply the literal clauses. Returns True if a violation was reported."""
    import signac
    from signac.errors import JobsCorruptedError

    opname = case["op"]
    removal = opname in ("remove", "clear", "reset")
    idJ, idNew = model.model_id(J), model.model_id(new_sp)
    now = {p: job_dirs(os.path.join(root, p)) for p in ("p1", "p2")}
    allowed_sps = [J, new_sp, B1, B2, K, JNEW, {"a": 1, "c": 3}]
    allowed_ids = {model.model_id(sp): sp for sp in allowed_sps}
    # (1) bystanders
    ctx.monitor("bystanders_identical")
    for p, ids in (("p1", [model.model_id(B1), model.model_id(B2)]), ("p2", [model.model_id(B1)])):
        for jid in ids:
            if now[p].get(jid) != pre[p].get(jid):
                wit["diff"] = model.snap_diff(pre[p].get(jid, {}), now[p].get(jid, {}))
                ctx.violation("bystander-job-changed", f"a job that is not affected by {opname} changed", wit)
                return True
    if case["dest"] == "collide":
        # the colliding destination is a bystander too: it must never be clobbered
        dp, did = ("p2", idJ) if opname in ("move", "clone") else ("p1", idNew)
        if payload_of(now[dp].get(did, {})) != payload_of(pre[dp].get(did, {})) and not (
                opname == "clone" and False):
            wit["diff"] = model.snap_diff(pre[dp].get(did, {}), now[dp].get(did, {}))
            ctx.violation("colliding-destination-clobbered", "the job occupying the destination id changed", wit)
            return True
    # (2) payload of the affected job
    if not removal and opname not in ("init_fresh",):
        ctx.monitor("payload_under_exactly_one_id")
        want = payload_of(pre["p1"][idJ])
        holders = []
        for p in ("p1", "p2"):
            for name, snap in now[p].items():
                if payload_of(snap) == want:
                    holders.append((p, name))
        if opname == "clone":
            if now["p1"].get(idJ) != pre["p1"][idJ]:
                wit["diff"] = model.snap_diff(pre["p1"][idJ], now["p1"].get(idJ, {}))
                ctx.violation("clone-source-changed", "the source of a (failed) clone changed", wit)
                return True
        else:
            legit = [h for h in holders if model.is_id(h[1])]
            if len(legit) != 1:
                wit["holders"] = holders
                wit["p1_dirs"] = sorted(now["p1"])
                wit["p2_dirs"] = sorted(now["p2"])
                ctx.violation("payload-not-under-exactly-one-id", "the affected job's complete payload is not found under exactly one id directory", wit)
                return True
    # (3) invalid dirs are reported by check(); (4) no forged state point
    for p in ("p1", "p2"):
        ws = os.path.join(root, p, "workspace")
        names = [n for n in now[p] if model.is_id(n)]
        invalid = {n for n in names if classify_dir(ws, n) is not None}
        fn_cache = os.path.join(root, p, model.CACHE_FILE)
        for with_cache in (True, False):
            if with_cache and not os.path.exists(fn_cache):
                continue
            if not with_cache and os.path.exists(fn_cache):
                os.replace(fn_cache, fn_cache + ".aside")
            ctx.monitor("invalid_dirs_reported_by_check")
            try:
                signac.Project(os.path.join(root, p)).check()
                named = set()
            except JobsCorruptedError as e:
                named = set(e.job_ids)
            except Exception as e:  # noqa
                wit["error"] = repr(e)
                ctx.violation("check-raises-other-exception", "check() itself failed after the fault", wit)
                return True
            finally:
                if not with_cache and os.path.exists(fn_cache + ".aside"):
                    os.replace(fn_cache + ".aside", fn_cache)
            if not invalid <= named:
                wit["invalid"] = sorted(invalid)
                wit["named"] = sorted(named)
                wit["persistent_cache_present"] = with_cache
                ctx.violation("invalid-directory-not-reported-by-check", "a job directory neither validates nor is reported by check()", wit)
                return True
        ctx.monitor("no_forged_statepoint")
        for n in set(names) - invalid:
            if n not in allowed_ids:
                wit["dir"] = n
                wit["sp"] = model.read_json(os.path.join(ws, n, model.SP_FILE))
                ctx.violation("directory-validates-with-foreign-statepoint", "a directory validates with a state point the job never had", wit)
                return True
        wit.setdefault("detectable", False)
        if invalid:
            wit["detectable"] = True
    # (5) handled errors
    if plan is not None and plan[0] == "err":
        ctx.monitor("error_propagates_or_complete")
        def strip(dirs):
            # an error may leave one stray temporary file next to an intact file (as after a crash, C10);
            # a call that returns normally may not
            return {p: {n: {k: v for k, v in snap.items()
                            if not (os.path.basename(k).startswith("._") or k.endswith("~"))}
                        for n, snap in d.items()} for p, d in dirs.items()}

        is_pre = now == pre or (res["outcome"] == "raised" and strip(now) == strip(pre))
        is_post = now == post or (res["outcome"] == "raised" and strip(now) == strip(post))
        if res["outcome"] == "returned":
            if not is_post:
                wit["diff_p1"] = model.snap_diff(_flat(post["p1"]), _flat(now["p1"]))
                wit["diff_p2"] = model.snap_diff(_flat(post["p2"]), _flat(now["p2"]))
                ctx.violation("silent-partial-success", "the call returned normally although the injected error left the operation incomplete", wit)
                return True
        elif res["outcome"] == "raised":
            if not (is_pre or is_post or wit["detectable"]):
                # the state is neither pre, post nor flagged by check(): look closer
                leftovers = [n for p in ("p1", "p2") for n in now[p] if not model.is_id(n)]
                wit["diff_vs_pre"] = model.snap_diff(_flat(pre["p1"]), _flat(now["p1"])) + model.snap_diff(_flat(pre["p2"]), _flat(now["p2"]))
                wit["leftovers"] = leftovers
                if removal:
                    # a failed removal may have removed some entries already, but what remains is as it was
                    nowJ, preJ = now["p1"].get(idJ, {}), pre["p1"].get(idJ, {})
                    altered = sorted(k for k, v in nowJ.items() if k in preJ and preJ[k] != v)
                    if altered:
                        wit["altered"] = altered
                        ctx.violation("failed-removal-altered-remaining-file",
                                      "after a propagated error during a removal, a file that is still there no longer has its content", wit)
                        return True
                if removal or opname in ("init_fresh", "clone"):
                    # partial removal / partial new job: legitimate as long as clauses (1)-(4) hold
                    ctx.count("partial_state_after_error_accepted")
                else:
                    ctx.violation("error-leaves-undetectable-intermediate-state", "after a propagated error the disk is neither pre-state, post-state nor check()-detectable", wit)
                    return True
    return False


def _flat(dirs):
    out = {}
    for name, snap in dirs.items():
        for k, v in snap.items():
            out[os.path.join(name, k)] = v
    return out


def run_followup(ctx, case):
    """After an injected error the caller catches the exception and edits the state point once more through the
    same handle. The refused change must not resurface: the data must end up under old+edit (if the disk was left
    in the pre-state) or new+edit (post-state)."""
    setup, base_op, new_sp = make(case)
    base = ctx.scratch("fu")
    idJ, idNew = model.model_id(J), model.model_id(new_sp)

    def op(root, st):
        job = st["job"]
        try:
            base_op(root, st)
            r = "returned"
        except Exception as e:  # noqa
            r = "raised:" + type(e).__name__
        where = "p2" if case["op"] == "move" else "p1"
        old_there = os.path.isdir(os.path.join(root, "p1", "workspace", idJ))
        new_there = os.path.isdir(os.path.join(root, where, "workspace", idNew))
        if case["op"] == "move":
            state = "post" if (new_there and not old_there) else ("pre" if old_there and not new_there else "other")
        else:
            state = "pre" if (old_there and not new_there) else ("post" if new_there and not old_there else "other")
        try:
            job.sp.zz = 7
            f = "ok"
        except Exception as e:  # noqa
            f = "raised:" + type(e).__name__
        with open(root + ".followup.json", "w") as fh:  # outside the monitored (fault-injected) root
            json.dump({"r": r, "state": state, "f": f, "id": job.id}, fh)

    r1 = os.path.join(base, "rec")
    os.makedirs(r1)
    rec = faultrun.run(setup, op, r1, include_reads=True, include_stats=True)
    if rec["outcome"] != "returned":
        raise RuntimeError(str(rec)[:500])
    r0 = os.path.join(base, "pre")
    os.makedirs(r0)
    faultrun.run(setup, noop, r0)
    want_payload = payload_of(job_dirs(os.path.join(r0, "p1"))[idJ])
    plans = []
    for st in rec["steps"]:
        for ename, eno in faultrun.ERRNOS.items():
            plans.append(("err", st["k"], eno, ename))
    plans = [p for j, p in enumerate(plans) if j % case["nparts"] == case["part"]]
    for j, plan in enumerate(plans):
        root = os.path.join(base, f"r{j}")
        os.makedirs(root)
        res = faultrun.run(setup, op, root, plan=plan[:3], include_reads=True, include_stats=True)
        if not res.get("fired") or not os.path.exists(root + ".followup.json"):
            shutil.rmtree(root, ignore_errors=True)
            continue
        fu = json.load(open(root + ".followup.json"))
        ctx.monitor("refused_change_stays_refused")
        ctx.distinct("nontrivial", ["followup", case["op"], list(plan)])
        if fu["state"] in ("pre", "post") and fu["r"].startswith("raised"):
            base_sp = J if fu["state"] == "pre" else new_sp
            want_sp = dict(base_sp, zz=7) if fu["f"] == "ok" else dict(base_sp)
            proj = "p2" if (case["op"] == "move" and fu["state"] == "post") else "p1"
            holders = []
            for pp in ("p1", "p2"):
                for name, snap in job_dirs(os.path.join(root, pp)).items():
                    pl = payload_of(snap)
                    if {k: v for k, v in pl.items() if k != model.DOC_FILE} == {k: v for k, v in want_payload.items() if k != model.DOC_FILE}:
                        try:
                            sp = json.loads(snap[model.SP_FILE][1].decode()) if model.SP_FILE in snap else None
                        except Exception:
                            sp = "unparsable"
                        holders.append((pp, name, sp))
            good = [h for h in holders if h[2] is not None and h[2] != "unparsable" and model.typed_eq(h[2], want_sp)
                    and h[1] == model.model_id(want_sp)]
            valid_foreign = [h for h in holders if isinstance(h[2], dict) and model.model_id(h[2]) == h[1]
                             and not model.typed_eq(h[2], want_sp) and not model.typed_eq(h[2], base_sp)]
            if valid_foreign and not good:
                ctx.violation(
                    "refused-change-applied-by-later-edit",
                    "a state point change that failed with an I/O error took effect when the caller edited the state point again",
                    {"op": case["op"], "plan": list(plan), "step": rec["steps"][plan[1]]["ev"], "followup": fu,
                     "expected_statepoint": want_sp, "found": [list(h) for h in holders]})
                return
        shutil.rmtree(root, ignore_errors=True)
    ctx.sample({"followup_after_error": case["op"], "fault_runs": len(plans)})


def run_case(ctx, case):
    if case.get("followup"):
        return run_followup(ctx, case)
    setup, op, new_sp = make(case)
    base = ctx.scratch("f")

    def fresh_root(tag):
        r = os.path.join(base, tag)
        os.makedirs(r)
        return r

    r0 = fresh_root("pre")
    faultrun.run(setup, noop, r0)
    pre = {p: job_dirs(os.path.join(r0, p)) for p in ("p1", "p2")}
    r1 = fresh_root("rec")
    rec = faultrun.run(setup, op, r1, include_reads=True, include_stats=True)
    if rec["outcome"] == "harness-error":
        raise RuntimeError(rec["error"])
    post = {p: job_dirs(os.path.join(r1, p)) for p in ("p1", "p2")}
    steps = rec["steps"]
    expected_outcome = rec["outcome"]
    # unfaulted run must itself satisfy the clauses
    wit0 = {"case": case, "plan": None, "outcome": rec["outcome"], "error": rec["error"]}
    if judge(ctx, case, None, rec, r1, pre, post, new_sp, wit0):
        return
    plans = []
    if "double_all" in case:
        e1 = faultrun.ERRNOS[case["double_all"]]
        for st in steps:
            r = fresh_root(f"d1_{st['k']}")
            first = faultrun.run(setup, op, r, plan=("errs", [[st["k"], e1]]), include_reads=True, include_stats=True)
            shutil.rmtree(r, ignore_errors=True)
            if not first.get("fired") or first["steps"] is None:
                continue
            for st2 in first["steps"]:
                if st2["k"] <= st["k"]:
                    continue
                for e2name in ("EIO", "EACCES", "ENOSPC"):
                    plans.append(("errs2", st["k"], e1, st2["k"], faultrun.ERRNOS[e2name], case["double_all"], e2name))
    elif "double" in case:
        k1, gap, e1, e2 = case["double"]
        if not steps:
            return
        k1 %= len(steps)
        plans.append(("err2", k1, faultrun.ERRNOS[e1], k1 + gap, faultrun.ERRNOS[e2], e1, e2))
    else:
        for st in steps:
            if st["mut"]:
                plans.append(("crash", st["k"]))
                if st["kind"] == "write":
                    for n in faultrun.torn_sizes(st["len"]):
                        plans.append(("torn", st["k"], n))
            for ename, eno in faultrun.ERRNOS.items():
                plans.append(("err", st["k"], eno, ename))
        plans = [p for j, p in enumerate(plans) if j % case["nparts"] == case["part"]]
    for j, plan in enumerate(plans):
        root = fresh_root(f"r{j}")
        if plan[0] == "errs2":
            res = faultrun.run(setup, op, root, plan=("errs", [[plan[1], plan[2]], [plan[3], plan[4]]]), include_reads=True, include_stats=True)
            fired = res.get("nfired", 0) >= 2
            judged_plan = ("err", plan[1], plan[2], f"{plan[5]}@{plan[1]}+{plan[6]}@{plan[3]}")
        elif plan[0] == "err2":
            res = run_double(setup, op, root, plan)
            fired = res.get("fired")
            judged_plan = ("err", plan[1], plan[2], plan[5] + "+" + plan[6])
        else:
            res = faultrun.run(setup, op, root, plan=plan[:3], include_reads=True, include_stats=True)
            fired = res["outcome"] == "crashed" if plan[0] != "err" else res.get("fired")
            judged_plan = plan
        if res["outcome"] == "harness-error":
            raise RuntimeError(res["error"])
        if not fired:
            ctx.count("fault_point_not_reached")
            shutil.rmtree(root, ignore_errors=True)
            continue
        ctx.monitor("crash_points" if plan[0] in ("crash", "torn") else "error_points")
        ctx.distinct("nontrivial", [case["op"], case["dest"], list(judged_plan)])
        wit = {"op": case["op"], "dest": case["dest"], "plan": list(judged_plan),
               "step": steps[plan[1]]["ev"] if plan[1] < len(steps) else None,
               "outcome": res["outcome"], "error": res.get("error"),
               "steps": [s["ev"] for s in steps][:30]}
        if judge(ctx, case, judged_plan, res, root, pre, post, new_sp, wit):
            return
        shutil.rmtree(root, ignore_errors=True)
    ctx.sample({"op": case["op"], "dest": case["dest"], "unfaulted_outcome": expected_outcome,
                "steps": [s["ev"] for s in steps if s["mut"]][:10], "fault_runs": len(plans)})


def run_double(setup, op, root, plan):
    """Two injected errors: at step k1 and at step k2 (counted over the faulted run's own steps)."""
    _, k1, e1, k2, e2, _, _ = plan

    class Two:
        pass

    # implemented by running with a plan object understood by a patched controller
    orig = faultrun.Controller._maybe_fault

    def patched(self, k, mut, proxy, data):
        if k == k1 and not getattr(self, "_f1", False):
            self._f1 = True
            self.fired = True
            raise OSError(e1, os.strerror(e1) + " [injected 1]")
        if k >= k2 and getattr(self, "_f1", False) and not getattr(self, "_f2", False):
            self._f2 = True
            raise OSError(e2, os.strerror(e2) + " [injected 2]")

    faultrun.Controller._maybe_fault = patched
    try:
        return faultrun.run(setup, op, root, plan=("double", -1), include_reads=True, include_stats=True)
    finally:
        faultrun.Controller._maybe_fault = orig
