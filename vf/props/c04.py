"""C04 - re-keying, moving and cloning carry all data and never clobber another job."""

import copy
import itertools
import os

from .. import fsmon, model, sig, world

PROP = "C04"
LEVEL = "exploration"
MONITORS = ["carry_bytes", "handle_follows", "independent_handles_work", "destination_exists_no_change",
            "noop_edit_readonly", "update_no_overwrite", "fresh_view_equals_model", "typed_edit_moves_job"]
RULE = (
    "Product of (old state point from the C03 universe) x (route: key set, attribute set, key delete, nested "
    "edit, whole assignment, update_statepoint +-overwrite, move, clone) x (edit value incl. no-ops and "
    "Python-equal-but-differently-typed values) x (destination: absent, initialised with its own payload, "
    "uninitialised handle only, empty directory, a regular file named like the id) x (payload: none, document, files, nested files) x (acting "
    "handle obtained by state point, by id, from iteration, copy.copy, deepcopy, pickle). Before the operation a "
    "copy.copy sibling, a deepcopy and a pickled copy of the handle are taken. Oracles: byte snapshot of both "
    "job directories, exception class, FS events (no mutation for no-op edits and refused updates), all live "
    "handles, fresh-session view vs model. Non-trivial and distinct = distinct cases in which the job existed "
    "with a payload or a destination was present."
)
RULE += (
    " " + "Added later: None and '' as state point values and start state points holding them; payload names ending in '~'; shallow copies follow a move."
    " In every third case DEBUG logging is effective for the package."
)
ASSUMPTIONS = [
    "An empty directory at the destination id is a class of its own: success with full carry or "
    "DestinationExistsError with no change are both accepted.",
    "update_statepoint without overwrite treats Python-equal values (1 vs 1.0) as non-conflicting, as the "
    "statement's 'differing' does; nothing may change in that case.",
]
MANIFEST = {"technique": 'runtime monitoring: byte snapshots + FS-call monitor (no mutation on no-op / refused edits) + handle observers over a product of routes x destinations x provenances', "engine": 'fs-call monitor (audit hook)'}
TIME_CAP = {"quick": 70, "thorough": 1500}

ROUTES = ["spset", "spattr", "spdel", "spnested", "spassign", "update", "update_ow", "move", "clone"]
DESTS = ["absent", "init", "handle", "emptydir", "file"]
PAYLOADS = ["none", "doc", "files", "nested"]
PROVS = ["sp", "id", "iter", "copy", "deepcopy", "pickle", "id_fresh"]


def gen_cases(ctx):
    rng = ctx.grng("c04")
    olds = [
        {"a": 1}, {"a": 1.0}, {"a": "1", "b": 0}, {"a": 1, "b": True, "c": "x"}, {"n": {"x": 1}, "a": 1},
        {"n": [1, 2]}, {"b": 1, "c": "y é"}, {}, {"a": 1, "c": None}, {"c": "", "b": 0},
    ]
    combos = list(itertools.product(range(len(olds)), ROUTES, DESTS, PAYLOADS, PROVS))
    rng.shuffle(combos)
    n = ctx.budget(26000, len(combos) * 12)
    i = 0
    k = 0
    while i < n:
        oi, route, dest, payload, prov = combos[k % len(combos)]
        k += 1
        old = copy.deepcopy(olds[oi])
        edit = None
        if route in ("spset", "spattr", "update", "update_ow"):
            key = rng.choice(["a", "b", "c", "n"])
            val = copy.deepcopy(rng.choice(world.SP_VALUES[key]))
            edit = [key, val]
        elif route == "spdel":
            if not old:
                continue
            edit = [rng.choice(sorted(old))]
        elif route == "spnested":
            if "n" not in old:
                old["n"] = copy.deepcopy(rng.choice([{"x": 1}, [1, 2]]))
            edit = [rng.choice([1, 2, 3])]
        elif route == "spassign":
            edit = [rng.choice([world.rand_sp(rng), copy.deepcopy(old), {**old, "a": rng.choice([1, 1.0, "1"])}])]
        uninit = rng.random() < 0.08
        if ctx.take(i):
            yield {"old": old, "route": route, "edit": edit, "dest": dest, "payload": payload, "prov": prov,
                   "uninit": uninit}
        i += 1


def new_sp_of(case):
    old, route, edit = case["old"], case["route"], case["edit"]
    sp = copy.deepcopy(old)
    if route in ("spset", "spattr", "update", "update_ow"):
        sp[edit[0]] = copy.deepcopy(edit[1])
    elif route == "spdel":
        sp.pop(edit[0], None)
    elif route == "spnested":
        if isinstance(sp["n"], dict):
            sp["n"]["x"] = edit[0]
        else:
            sp["n"].append(edit[0])
    elif route == "spassign":
        sp = copy.deepcopy(edit[0])
    return sp


def jobdir_snapshot(path, jid):
    return model.snapshot(os.path.join(path, "workspace", jid))


def payload_only(snap):
    return {k: v for k, v in snap.items() if k != model.SP_FILE}


def run_case(ctx, case):
    from signac.errors import DestinationExistsError

    w = world.World(ctx, nproj=2, check_handles=True)
    old = case["old"]
    route = case["route"]
    new_sp = new_sp_of(case)
    refused_update = False
    if route == "update" and case["edit"][0] in old:
        # without overwrite an existing key is never altered: KeyError if the values differ, else nothing to do
        refused_update = True
        new_sp = copy.deepcopy(old)
    old_id, new_id = model.model_id(old), model.model_id(new_sp)
    cross = route in ("move", "clone")
    src_p, dst_p = 0, (1 if cross else 0)
    dst_sp = old if cross else new_sp
    dst_id = model.model_id(dst_sp)

    # --- source job and payload
    w.apply(["open", 0, old])
    if not case.get("uninit"):
        w.apply(["init", 0])
        if case["payload"] in ("doc", "nested"):
            w.apply(["docset", 0, "k", 1])
            w.apply(["docset", 0, "k2", {"k": {"z": [1]}}])
        if case["payload"] in ("files", "nested"):
            w.apply(["file", 0, "f.txt", "data-of-source"])
            w.apply(["file", 0, "g.bin", "x" * 300])
        if case["payload"] == "nested":
            w.apply(["file", 0, "sub/h.txt", "é\n"])
            # ordinary data whose names look like editor backups
            w.apply(["file", 0, "notes.txt~", "kept"])
            w.apply(["file", 0, "arch~/h.dat~", "kept too"])
    existed = not case.get("uninit")

    # --- destination
    typed_equal_edit = (
        route in ("spassign", "update", "update_ow")
        and world._has_equal_typed_conflict(old, new_sp if route == "spassign" else {case["edit"][0]: case["edit"][1]})
    )
    same = (dst_id == old_id) and not cross
    if not same:
        if case["dest"] == "init":
            w.apply(["open", dst_p, dst_sp])
            w.apply(["init", len(w.handles) - 1])
            w.apply(["docset", len(w.handles) - 1, "k", "dest-doc"])
            w.apply(["file", len(w.handles) - 1, "f.txt", "data-of-destination"])
        elif case["dest"] == "handle":
            w.apply(["open", dst_p, dst_sp])
        elif case["dest"] == "file" and not case.get("uninit"):
            os.makedirs(os.path.join(w.paths[dst_p], "workspace"), exist_ok=True)
            with open(os.path.join(w.paths[dst_p], "workspace", dst_id), "w") as f:
                f.write("a regular file that happens to be named like the destination id")
        elif case["dest"] == "emptydir" and not case.get("uninit"):
            os.makedirs(os.path.join(w.paths[dst_p], "workspace", dst_id), exist_ok=True)

    # --- acting handle by provenance, plus siblings taken before the operation
    prov = case["prov"]
    if not existed and prov in ("id", "iter", "id_fresh"):
        prov = "sp"
    if prov == "sp":
        act = 0
    else:
        if prov == "id":
            w.apply(["openid", 0, sorted(w.model[0]).index(old_id)])
        elif prov == "id_fresh":
            w.apply(["restart", 0])
            w.apply(["openid", 0, sorted(w.model[0]).index(old_id)])
        elif prov == "iter":
            w.apply(["iterhandle", 0, sorted(w.model[0]).index(old_id)])
        elif prov in ("copy", "deepcopy", "pickle"):
            w.apply([prov, 0])
        act = len(w.handles) - 1
        if prov == "pickle" and len(w.handles) - 1 == 0:
            act = 0
    if len(w.handles) <= act:
        act = 0
    # materialise (so that copy.copy links) for half of the cases, keep lazy for the rest
    if case["payload"] in ("doc", "files"):
        w.handles[act]["job"].statepoint()
    # pickle first: a handle that already has a copy.copy sibling cannot be pickled (known finding)
    n_before = len(w.handles)
    w.apply(["pickle", act])
    pk = len(w.handles) - 1 if len(w.handles) > n_before else None
    w.apply(["deepcopy", act])
    dc = len(w.handles) - 1
    w.apply(["copy", act])
    sib = len(w.handles) - 1

    before_src = jobdir_snapshot(w.paths[0], old_id)
    before_dst = jobdir_snapshot(w.paths[dst_p], dst_id)
    before_all = [model.snapshot(p) for p in w.paths]
    m_before = copy.deepcopy(w.model)

    # --- the operation
    op = {
        "spset": lambda: ["spset", act] + case["edit"],
        "spattr": lambda: ["spattr", act] + case["edit"],
        "spdel": lambda: ["spdel", act] + case["edit"],
        "spnested": lambda: ["spnested", act] + case["edit"],
        "spassign": lambda: ["spassign", act] + case["edit"],
        "update": lambda: ["update_sp", act, {case["edit"][0]: case["edit"][1]}, False],
        "update_ow": lambda: ["update_sp", act, {case["edit"][0]: case["edit"][1]}, True],
        "move": lambda: ["move", act, 1],
        "clone": lambda: ["clone", act, 1],
    }[route]()

    if typed_equal_edit and route != "update":
        # dedicated monitor for Python-equal, differently typed assignments (world skips them)
        ctx.monitor("typed_edit_moves_job")
        job = w.handles[act]["job"]
        try:
            if route == "spassign":
                job.statepoint = copy.deepcopy(case["edit"][0])
            else:
                job.update_statepoint({case["edit"][0]: case["edit"][1]}, overwrite=True)
            err = None
        except Exception as e:  # noqa
            err = e
        want = new_id
        if err is None and job.id != want and not (case["dest"] == "init" and not same):
            w.viol(
                "typed-equal-statepoint-assignment-ignored",
                "assigning a Python-equal but differently typed state point value did not re-key the job",
                {"old": old, "requested": new_sp, "job_id": job.id, "expected_id": want,
                 "statepoint": model.plain(job.statepoint())},
            )
        # the cache must still tell the truth about the id it has
        proj = w.sessions[0]
        cached = proj._sp_cache.get(job.id)
        if cached is not None and model.model_id(cached) != job.id:
            w.viol("cache-maps-id-to-foreign-statepoint", "project cache maps the job id to a state point with another hash",
                   {"id": job.id, "cached": cached})
        ctx.distinct("nontrivial", case)
        return

    if case["dest"] == "file" and not same and existed:
        # a regular file occupies the destination name: the operation cannot succeed; whatever it raises, both
        # projects must be left exactly as they were (no backup file, no half-moved directory)
        job = w.handles[act]["job"]
        try:
            with fsmon.Session(w.paths):
                w_op_direct(w, job, case)
            outcome = "returned"
        except KeyError:
            outcome = "refused-update"
        except Exception as e:  # noqa
            outcome = "raised:" + type(e).__name__
        after_all = [model.snapshot(p) for p in w.paths]
        ctx.monitor("destination_exists_no_change")
        if after_all != before_all:
            w.viol("blocked-destination-changed-disk",
                   "the destination name is taken by a regular file, the operation " + outcome + " and the projects changed",
                   {"diff": model.snap_diff(before_all[0], after_all[0]) + model.snap_diff(before_all[1], after_all[1])})
        elif outcome == "returned":
            w.viol("blocked-destination-silently-ignored", "the operation returned although the destination name is a regular file", {})
        else:
            # and the handle still describes the old job
            job2 = w.handles[act]["job"]
            if job2.id != old_id or not model.typed_eq(job2.statepoint(), old):
                w.viol("handle-statepoint-differs-from-its-id", "after the refused operation the handle does not describe the old job",
                       {"id": job2.id, "statepoint": model.plain(job2.statepoint())})
        ctx.distinct("nontrivial", case)
        return

    if case["dest"] == "emptydir" and not same and existed:
        # either outcome is legal: run outside the model
        job = w.handles[act]["job"]
        try:
            with fsmon.Session(w.paths):
                w_op_direct(w, job, case)
            ok = True
        except DestinationExistsError:
            ok = False
        except KeyError:
            ok = None
        after_src = jobdir_snapshot(w.paths[0], old_id)
        after_dst = jobdir_snapshot(w.paths[dst_p], dst_id)
        ctx.monitor("carry_bytes")
        if ok is True:
            if payload_only(after_dst) != payload_only(before_src):
                w.viol("payload-not-carried", "payload differs after a successful operation onto an empty directory",
                       {"diff": model.snap_diff(payload_only(before_src), payload_only(after_dst))})
        elif ok is False:
            if after_src != before_src or after_dst != before_dst:
                w.viol("failed-op-changed-disk", "DestinationExistsError but directories changed",
                       {"diff": model.snap_diff(before_src, after_src) + model.snap_diff(before_dst, after_dst)})
        ctx.distinct("nontrivial", case)
        return

    try:
        with_events = w.apply(op)
    except world.Abort:
        ctx.count("histories_aborted_after_violation")
        return
    ev = w.last_events
    try:
        w.observe()
        w.observe_handles(full=True)
    except world.Abort:
        ctx.count("histories_aborted_after_violation")
        return

    changed = w.model != m_before
    after_all = [model.snapshot(p) for p in w.paths]
    if not changed:
        # refused or no-op: the disk must be byte-identical and, for no-op edits and refused updates,
        # no mutating FS call may have been issued at all
        ctx.monitor("destination_exists_no_change")
        if after_all != before_all:
            w.viol("refused-or-noop-operation-changed-disk", "model says nothing changes, the disk changed",
                   {"diff": model.snap_diff(before_all[0], after_all[0]) + model.snap_diff(before_all[1], after_all[1])})
        noop = same
        if noop and existed:
            ctx.monitor("noop_edit_readonly")
            if refused_update:
                ctx.monitor("update_no_overwrite")
            muts = [e for e in ev.mutating()]
            if muts:
                w.viol("noop-edit-mutates-disk", "a no-op edit / refused update issued mutating FS calls",
                       {"events": [e.brief() for e in muts][:6]})
    else:
        ctx.monitor("carry_bytes")
        if existed:
            where = 1 if cross else 0
            after_new = jobdir_snapshot(w.paths[where], dst_id if cross else new_id)
            if payload_only(after_new) != payload_only(before_src):
                w.viol("payload-not-byte-identical", "document / files are not byte-identical under the new id",
                       {"diff": model.snap_diff(payload_only(before_src), payload_only(after_new))})
            if route == "clone" and jobdir_snapshot(w.paths[0], old_id) != before_src:
                w.viol("clone-changed-source", "clone changed the source job directory", {})
            if route != "clone" and os.path.exists(os.path.join(w.paths[0], "workspace", old_id)) and old_id != new_id:
                w.viol("old-id-still-present", "old id directory still exists after the job moved", {})
        # document token through the acting handle lands in the new directory
        if route != "clone":
            rec = w.handles[act] if act < len(w.handles) else None
            if rec is not None and not rec.get("doc_stale"):
                try:
                    w.apply(["docset", w.handles.index(rec), "z", "token"])
                    w.observe()
                except world.Abort:
                    return
    # a second state point change through the same handle: whatever the first operation left in the handle
    # (paths, file names, lazily created objects) must describe the job's new home
    if changed and route != "clone" and act < len(w.handles):
        try:
            w.apply(["spset", act, "zz", 9])
            w.observe()
            w.observe_handles(full=True)
            w.apply(["docset", act, "z", "token2"])
            w.observe()
        except world.Abort:
            ctx.count("histories_aborted_after_violation")
            return
    # independent handles taken before the operation still work on their own
    ctx.monitor("independent_handles_work")
    for idx in (dc, pk):
        if idx is None or idx >= len(w.handles):
            continue
        rec = w.handles[idx]
        if rec.get("lazy") and model.model_id(rec["sp"]) not in w.model[rec["p"]]:
            continue
        try:
            w.apply(["init", idx])
            w.observe()
            w.observe_handles(full=True)
        except world.Abort:
            return
    if existed and (case["payload"] != "none" or case["dest"] != "absent"):
        ctx.distinct("nontrivial", case)
    ctx.sample({k: case[k] for k in ("old", "route", "edit", "dest", "payload", "prov")})


def w_op_direct(w, job, case):
    route, edit = case["route"], case["edit"]
    if route == "spset":
        job.statepoint[edit[0]] = copy.deepcopy(edit[1])
    elif route == "spattr":
        setattr(job.sp, edit[0], copy.deepcopy(edit[1]))
    elif route == "spdel":
        del job.statepoint[edit[0]]
    elif route == "spnested":
        n = job.sp.n
        if hasattr(n, "keys"):
            n.x = edit[0]
        else:
            n.append(edit[0])
    elif route == "spassign":
        job.statepoint = copy.deepcopy(edit[0])
    elif route == "update":
        job.update_statepoint({edit[0]: edit[1]}, overwrite=False)
    elif route == "update_ow":
        job.update_statepoint({edit[0]: edit[1]}, overwrite=True)
    elif route == "move":
        job.move(w.sessions[1])
    elif route == "clone":
        w.sessions[1].clone(job)
