#!/venv/bin/python
"""Run every seeded change against the check that is recorded as catching it (tools/seeded.py irun, three at a
time) and write seeded/RESULTS.txt.  usage: tools/seeded_sweep.py [name-substring]"""
import concurrent.futures as cf, json, os, subprocess, sys
HERE = os.path.dirname(os.path.dirname(os.path.abspath(__file__)))
NEIGHBOUR = {"C01-i": "C08", "C02-i": "C09", "C04-i": "C03", "C13-i": "C15", "C14-i": "C15", "C01-b": "C02", "C02-b": "C12", "C14-b": "C15", "C14-g": "C15", "C05-c": "C10", "C07-c": "C06", "C03-e": "C02",
             "C03-g": "C02", "C04-h": "C11", "C14-h": "C13"}
NOT_EXPECTED = {"C05-b": "outside the stated properties", "C02-c": "outside the stated properties",
                "C01-e": "outside the stated properties", "C17-e": "made harmless by fix 7b0a438",
                "C13-a": "made harmless by fix b4acbac",
                "C05-i": "masked by the open finding buffered-multi-handle-lost-update",
                "C09-i": "left open for lack of time", "C10-i": "left open for lack of time"}
names = sorted(n for n in os.listdir(os.path.join(HERE, "seeded")) if os.path.isdir(os.path.join(HERE, "seeded", n)))
if len(sys.argv) > 1:
    names = [n for n in names if sys.argv[1] in n]
def one(n):
    prop = NEIGHBOUR.get(n, n.split("-")[0])
    r = subprocess.run([os.path.join(HERE, "tools", "seeded.py"), "irun", n, prop], capture_output=True, text=True)
    line = (r.stdout.strip().splitlines() or ["?"])[-1]
    return n, prop, line
rows = []
with cf.ThreadPoolExecutor(max_workers=3) as ex:
    for n, prop, line in ex.map(one, names):
        caught = "exit=1" in line
        status = "caught" if caught else ("not caught (%s)" % NOT_EXPECTED[n] if n in NOT_EXPECTED else "NOT CAUGHT")
        rows.append(f"{n} {prop} {status} :: {line}")
        print(rows[-1], flush=True)
if len(sys.argv) == 1:
    open(os.path.join(HERE, "seeded", "RESULTS.txt"), "w").write("\n".join(rows) + "\n")
print(sum("NOT CAUGHT" in r for r in rows), "unexpected misses")
