#!/venv/bin/python
"""Self-validation: apply each hand-written mutation to /repo, run the quick check of the
property it should break, expect exit 1, and restore /repo (git checkout).

  tools/mutants.py [PROP ...]        (run all, or only those for the given properties)
"""
import json
import os
import shutil
import subprocess
import sys

os.environ.setdefault("VERIF_EVIDENCE_DIR", "/dev/shm/vf_evidence_of_broken_trees")

HERE = os.path.dirname(os.path.dirname(os.path.abspath(__file__)))
TABLE = json.load(open(os.path.join(HERE, "tools", "mutants.json")))


def main():
    want = {a.split(":")[0].upper() for a in sys.argv[1:]}
    subs = {a.split(":")[0].upper(): a.split(":", 1)[1] for a in sys.argv[1:] if ":" in a}
    st = subprocess.run(["git", "-C", "/repo", "status", "--porcelain", "--untracked-files=no"],
                        capture_output=True, text=True).stdout.strip()
    if st:
        print("refusing: /repo has uncommitted changes:\n" + st)
        return 2
    results = []
    for m in TABLE:
        if want and m["prop"] not in want:
            continue
        if m["prop"] in subs and subs[m["prop"]] not in m["name"]:
            continue
        if "revert_commit" in m:
            c = m["revert_commit"]
            d = subprocess.run(["git", "-C", "/repo", "diff", c + "~1", c], capture_output=True, text=True).stdout
            ap = subprocess.run(["git", "-C", "/repo", "apply", "-R"], input=d, capture_output=True, text=True)
            if ap.returncode != 0:
                results.append((m, "REVERT-FAILED"))
                print(f"{m['prop']} {m['name']}: REVERT-FAILED {ap.stderr[-200:]}")
                subprocess.run(["git", "-C", "/repo", "checkout", "--", "."], check=True)
                continue
        else:
            path = os.path.join("/repo", m["file"])
            src = open(path).read()
            if m["old"] not in src:
                results.append((m, "PATTERN-NOT-FOUND"))
                print(f"{m['prop']} {m['name']}: PATTERN-NOT-FOUND")
                continue
            open(path, "w").write(src.replace(m["old"], m["new"], 1))
        try:
            r = subprocess.run([os.path.join(HERE, "check"), m["prop"], "--tier", "quick"],
                               capture_output=True, text=True)
            keys = sorted({l.split("key=")[1].split(" ::")[0] for l in r.stdout.splitlines() if l.startswith("  key=")})
            verdict = {0: "MISSED" if m.get("expect") != "equivalent" else "equivalent-ok", 1: "caught", 2: "INCONCLUSIVE"}.get(r.returncode, f"exit{r.returncode}")
            results.append((m, verdict))
            print(f"{m['prop']} {m['name']}: {verdict} {keys[:4]}", flush=True)
        finally:
            subprocess.run(["git", "-C", "/repo", "checkout", "--", "."], check=True)
            shutil.rmtree(os.path.join(HERE, "replays"), ignore_errors=True)
    missed = [m["name"] for m, v in results if v not in ("caught", "equivalent-ok")]
    print(f"{len(results) - len(missed)}/{len(results)} caught; not caught: {missed}")
    return 0


if __name__ == "__main__":
    sys.exit(main())
