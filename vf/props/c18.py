"""C18 - schema detection and job diffs are exact summaries of the state points."""

import random

from .. import model, query, sig

PROP = "C18"
LEVEL = "exploration"
MONITORS = ["schema", "schema_exclude_const", "schema_subset", "schema_stale_selection", "diff", "diff_reconstruct"]
RULE = (
    "Corpora of 0-8 jobs over heterogeneous, nested, mixed-type state point universes (int vs equal float vs bool "
    "under one key, lists, None, keys present in only some jobs, a key that is scalar in one job and a mapping in "
    "another; plus the C06 corpora) x {all jobs, random subsets given as ids or Job handles} x exclude_const. "
    "detect_schema is compared with a model {dotted leaf key: {exact type: set(values)}}; diff_jobs with the "
    "model 'pairs not shared by all jobs' and the reconstruction law diff+common == state point. Non-trivial and "
    "distinct = distinct (corpus, subset, exclude_const) with >= 2 selected jobs and >= 1 non-constant key."
)
RULE += (
    " " + 'Added later: selections holding ids of jobs removed after their state points were cached; sibling leaves three levels down; key names resembling namespace prefixes; the empty-string key holding a mapping; lists holding mappings (same value, keys in either order).'
    " In every third case DEBUG logging is effective for the package."
)
ASSUMPTIONS = [
    "Within one type group values are a Python set (== decides identity, so (1,) and (1.0,) are one list value).",
    "Empty-mapping values are outside the stated universe and are not generated.",
]
MANIFEST = {"technique": 'runtime monitoring: reference summaries (schema by exact type, diff + reconstruction law) over generated corpora', "engine": 'reference-model monitor'}
TIME_CAP = {"quick": 60, "thorough": 900}

TYPED = [1, 1.0, True, 0, 0.0, False, 2, -1, -1.0, -2, -2.0, "1", "x", None, [1], [1, 2], [1.0], ["x"], 2.5,
         # lists holding mappings: the same value written with its keys in either order, and a different one
         [{"nx": 4, "ny": 8}], [{"ny": 8, "nx": 4}], [{"nx": 4, "ny": 9}]]


def rand_sp(rng):
    sp = {}
    for k in ("a", "b", "c"):
        if rng.random() < 0.75:
            sp[k] = rng.choice(TYPED)
    r = rng.random()
    if r < 0.4:
        sp["n"] = {"x": rng.choice(TYPED)}
        if rng.random() < 0.4:
            sp["n"]["y"] = {"z": rng.choice(TYPED)}
            if rng.random() < 0.6:  # sibling leaves two and three levels down
                sp["n"]["y"]["w"] = rng.choice(TYPED)
            if rng.random() < 0.3:
                sp["n"]["y"]["deep"] = {"p": rng.choice(TYPED), "q": rng.choice(TYPED)}
    elif r < 0.55:
        sp["n"] = rng.choice(TYPED)
    # key names that resemble the namespace prefixes of the query language, holding mappings
    r = rng.random()
    if r < 0.06:
        sp["wasp"] = {"x": rng.choice(TYPED)}
    elif r < 0.12:
        sp["sp"] = {"a": rng.choice(TYPED)}
    elif r < 0.16:
        sp["doc"] = {"sp": {"a": rng.choice(TYPED)}}
    elif r < 0.22:
        sp[""] = {"a": rng.choice(TYPED)}  # the empty string is a legal key, also for a mapping
    return sp


def gen_cases(ctx):
    rng = ctx.grng("c18")
    n = ctx.budget(30000, 400000)
    for i in range(n):
        if i % 3 == 0:
            corpus = [jd["sp"] for jd in query.rand_corpus(rng)]
        else:
            k = rng.choice([0, 1, 2, 2, 3, 4, 5, 6, 8])
            seen = {}
            for _ in range(k * 2):
                sp = rand_sp(rng)
                if len(seen) < k:
                    seen.setdefault(model.model_id(sp), sp)
            corpus = list(seen.values())
            if rng.random() < 0.3 and corpus:
                # constant key shared by all
                for sp in corpus:
                    sp["const"] = 42
                corpus = list({model.model_id(sp): sp for sp in corpus}.values())
        seed = rng.getrandbits(40)
        if ctx.take(i):
            yield {"sps": corpus, "seed": seed}


class HD(dict):
    """A mapping that occurs inside a list value, made hashable by its content (key order does not matter)."""

    def __hash__(self):
        import json

        return hash(json.dumps(self, sort_keys=True, default=list))


def tup2(v):
    if isinstance(v, (list, tuple)):
        return tuple(tup2(x) for x in v)
    if isinstance(v, dict):
        return HD({k: tup2(x) for k, x in v.items()})
    return v


def model_schema(sps, exclude_const):
    keys = {}
    for sp in sps:
        for k, v in model.flatten(sp).items():
            if isinstance(v, dict):
                continue
            keys.setdefault(k, []).append(tup2(v))
    out = {}
    for k, vals in keys.items():
        by_type = {}
        for v in vals:
            by_type.setdefault(type(v), set()).add(v)
        if exclude_const and len(vals) == len(sps) and len(by_type) == 1 and len(next(iter(by_type.values()))) == 1:
            continue
        out[k] = by_type
    return out


def norm_schema(schema):
    return {k: {t: {tup2(detup(x)) for x in vs} for t, vs in v.items() if vs} for k, v in dict(schema).items()}


def schema_repr(s):
    return {k: {t.__name__: sorted(map(repr, vs)) for t, vs in v.items()} for k, v in s.items()}


def classify_schema(sps, got, exp):
    return "schema-differs-from-model"


def nest(flat):
    out = {}
    for k, v in flat.items():
        nodes = k.split(".")
        d = out
        for n in nodes[:-1]:
            d = d.setdefault(n, {})
        d[nodes[-1]] = v
    return out


def detup(v):
    if isinstance(v, tuple):
        return [detup(x) for x in v]
    if isinstance(v, dict):
        return {k: detup(x) for k, x in v.items()}
    return v


def model_diff(sps):
    flats = [{k: query.tup(v) for k, v in model.flatten(sp).items()} for sp in sps]
    common = {}
    if flats:
        for k, v in flats[0].items():
            if all(k in f and f[k] == v for f in flats):
                common[k] = v
    diffs = [nest({k: v for k, v in f.items() if k not in common}) for f in flats]
    return diffs, nest(common)


def deep_merge(a, b):
    out = dict(a)
    for k, v in b.items():
        if k in out and isinstance(out[k], dict) and isinstance(v, dict):
            out[k] = deep_merge(out[k], v)
        else:
            out[k] = v
    return out


def run_case(ctx, case):
    import signac

    sps = case["sps"]
    rng = random.Random(case["seed"])
    project = sig.new_project(ctx)
    jobs = [project.open_job(sp).init() for sp in sps]
    ids = [j.id for j in jobs]
    by_id = dict(zip(ids, sps))
    selections = [None]
    for _ in range(2):
        if ids:
            sub = rng.sample(ids, rng.randint(0, len(ids)))
            selections.append(sub)
    for sel in selections:
        chosen = ids if sel is None else sel
        chosen_sps = [by_id[i] for i in chosen]
        for exclude_const in (False, True):
            if sel is None:
                subset = None
            elif rng.random() < 0.5:
                subset = list(sel)
            else:
                subset = [project.open_job(id=i) for i in sel]
            try:
                got = norm_schema(project.detect_schema(exclude_const=exclude_const, subset=subset))
            except Exception as e:  # noqa
                ctx.violation("detect_schema-raises", f"detect_schema raised {type(e).__name__}: {e}",
                              {"sps": chosen_sps, "exclude_const": exclude_const})
                continue
            exp = model_schema(chosen_sps, exclude_const)
            ctx.monitor("schema")
            if exclude_const:
                ctx.monitor("schema_exclude_const")
            if sel is not None:
                ctx.monitor("schema_subset")
            if got != exp or any(set(got[k]) != set(exp[k]) for k in exp):
                ctx.violation(
                    classify_schema(chosen_sps, got, exp), "detect_schema differs from the model summary",
                    {"sps": chosen_sps, "exclude_const": exclude_const, "subset": sel is not None,
                     "got": schema_repr(got), "expected": schema_repr(exp)},
                )
            if len(chosen) >= 2 and model_schema(chosen_sps, True):
                ctx.distinct("nontrivial", [sorted(chosen), exclude_const])
        # diff
        djobs = [project.open_job(id=i) for i in chosen]
        try:
            got = signac.diff_jobs(*djobs)
        except Exception as e:  # noqa
            ctx.violation("diff_jobs-raises", f"diff_jobs raised {type(e).__name__}: {e}", {"sps": chosen_sps})
            continue
        exp_diffs, common = model_diff(chosen_sps)
        ctx.monitor("diff")
        bad = []
        if set(got) != set(chosen):
            bad.append(("keys", sorted(got)))
        else:
            for jid, ed, sp in zip(chosen, exp_diffs, chosen_sps):
                gd = detup(got[jid])
                if gd != detup(ed):
                    bad.append(("diff", jid, gd, detup(ed)))
                ctx.monitor("diff_reconstruct")
                if deep_merge(detup(common), gd) != sp:
                    bad.append(("reconstruct", jid, deep_merge(detup(common), gd), sp))
        if bad:
            ctx.violation("diff-differs-from-model", "diff_jobs is not 'pairs not shared by all' / does not reconstruct",
                          {"sps": chosen_sps, "problems": bad[:4]})
    # a selection made earlier and used after some of its jobs are gone: the summary is of the selected jobs that
    # exist, never of state points remembered from before (an implementation may also refuse the unknown ids)
    if len(ids) >= 2 and case["seed"] % 3 == 0:
        gone = rng.sample(ids, rng.randint(1, len(ids) - 1))
        if rng.random() < 0.5:
            project.update_cache()
        for i in gone:
            project.open_job(id=i).remove()
        handle = project if rng.random() < 0.5 else signac.Project(project.path)
        sel = rng.sample(ids, rng.randint(1, len(ids)))
        left_sps = [by_id[i] for i in sel if i not in gone]
        for exclude_const in (False, True):
            ctx.monitor("schema_stale_selection")
            try:
                got = norm_schema(handle.detect_schema(exclude_const=exclude_const, subset=list(sel)))
            except LookupError:
                ctx.count("stale_selection_refused")
                continue
            except Exception as e:  # noqa
                ctx.violation("detect_schema-raises", f"detect_schema raised {type(e).__name__}: {e}",
                              {"sps": left_sps, "exclude_const": exclude_const, "stale_ids_in_subset": True})
                continue
            exp = model_schema(left_sps, exclude_const)
            if got != exp or any(set(got[k]) != set(exp[k]) for k in exp):
                ctx.violation("schema-reports-removed-jobs", "detect_schema(subset) summarises state points of jobs that no longer exist",
                              {"existing_selected": left_sps, "removed": [by_id[i] for i in gone], "exclude_const": exclude_const,
                               "got": schema_repr(got), "expected": schema_repr(exp)})
    ctx.sample({"sps": sps[:3], "schema": schema_repr(model_schema(sps, False))})
