"""C10 - documents and the cache file are replaced atomically."""

import gzip
import json
import os

from .. import faultrun, model, sig

PROP = "C10"
LEVEL = "fault_enumeration"
MONITORS = ["next_write_over_leftover", "crash_before_step", "torn_write", "file_old_or_new", "api_reads_old_or_new", "leftovers_bounded",
            "atomic_policy", "reader_between_writer_steps"]
DISTINCT = "nontrivial"
RULE = (
    "Scenarios: job document, project document and state point cache writes with empty, small, >8 KiB and >64 KiB "
    "contents, first write (no old file) and overwrite; buffered flush on leaving signac.buffered(); update_cache on "
    "growing and shrinking workspaces; the project-document write of the v1->v2 migration. Each write is executed "
    "once in a forked child to record its file-system steps (audited calls + every write() on files opened for "
    "writing); it is then re-executed once per step with the process killed (os._exit, nothing flushed) before the "
    "step, and for every write() step with torn prefixes of 0, 1, half and all-but-one bytes (thorough: every prefix of "
    "writes up to 300 bytes, 16 evenly spaced prefixes plus page / pipe-buffer boundaries of larger ones). After each crash the "
    "parent (which never ran the write) parses the target raw and through a fresh signac handle: it must be complete "
    "and equal old or new, with at most one stray temp file beside it. Reader/writer: a reader process is stepped "
    "at every position between the writer's FS steps by the process scheduler. The P-atomic policy (target never "
    "opened for writing in place / truncated) is checked on every run. Non-trivial and distinct = distinct "
    "(scenario, step, fault) runs in which the process actually died at that step."
)
RULE += (
    " " + "Added later: whole-document assignment through the owner's property; after each crash that leaves a stray temp file, one more complete (much shorter) write; each replacing step failing once, after which the target must still never be opened for writing."
    " In every third case DEBUG logging is effective for the package."
)
ASSUMPTIONS = [
    "A crash is process death with the kernel state intact (os._exit); power-loss durability (fsync ordering) is out of reach.",
    "Local POSIX file system semantics (tmpfs): rename is atomic.",
]
MANIFEST = {
    "engine": "fault enumeration (fork + os._exit / OSError at FS steps)",
    "technique": "runtime monitoring: fault injection at every observed FS step of real writes (fork + os._exit), oracle reads the disk as a fresh session; process scheduler for reader/writer interleavings",
}
TIME_CAP = {"quick": 80, "thorough": 900}


def EXHAUSTIVE(tier):
    return True


def big(n, tag):
    return {f"k{i}": (tag + "x" * 50) for i in range(n)}


CONTENTS = {
    "empty": ({}, {"a": 1}),
    "small": ({"a": 1, "s": "é"}, {"a": 2, "b": [1, 2, {"c": None}]}),
    "to-empty": ({"a": 1}, {}),
    "8k": (big(150, "old"), big(160, "new")),
    "64k": (big(1300, "old"), big(1250, "new")),
    "first": (None, {"a": 1}),
    "first-64k": (None, big(1300, "new")),
}

SCENARIOS = []
for target in ("jobdoc", "projdoc"):
    for cname in CONTENTS:
        for how in ("reset", "setitem"):
            if how == "setitem" and cname in ("8k", "64k", "first-64k"):
                continue  # key-wise edits of large documents are thousands of complete writes; 'reset' covers the size
            SCENARIOS.append({"target": target, "content": cname, "how": how})
for cname in ("small", "64k", "first"):
    SCENARIOS.append({"target": "jobdoc", "content": cname, "how": "buffered"})
    SCENARIOS.append({"target": "projdoc", "content": cname, "how": "buffered"})
for cname in ("small", "8k", "first"):
    # whole-document assignment through the owner's property (job.document = ..., project.doc = ...)
    SCENARIOS.append({"target": "jobdoc", "content": cname, "how": "assign"})
    SCENARIOS.append({"target": "projdoc", "content": cname, "how": "assign"})
for grow in ("first", "grow", "shrink", "grow-big"):
    SCENARIOS.append({"target": "cache", "content": grow, "how": "update_cache"})
for name in ("plain", "my project"):
    SCENARIOS.append({"target": "projdoc", "content": name, "how": "migration"})


def gen_cases(ctx):
    i = 0
    for sc in SCENARIOS:
        # one case = one scenario; the fault points are enumerated inside (needs the recorded step list)
        for part in range(4):
            if ctx.take(i):
                yield dict(sc, part=part, nparts=4)
            i += 1
    for k in range(8):
        if ctx.take(i):
            yield {"target": "reader", "k": k}
        i += 1


SP = {"a": 1}


def make(case):
    """Returns (setup, op, target_relpath, old_value, new_value, parse)."""
    import signac

    target, cname, how = case["target"], case["content"], case["how"]
    if target in ("jobdoc", "projdoc") and how != "migration":
        old, new = CONTENTS[cname]

        def setup(root):
            p = signac.init_project(root)
            job = p.open_job(SP).init()
            if old is not None:
                if target == "jobdoc":
                    job.document.reset(old)
                else:
                    p.document.reset(old)
            # fresh objects for the operation
            p2 = signac.Project(root)
            return {"p": p2, "job": p2.open_job(SP)}

        def op(root, st):
            doc = st["job"].document if target == "jobdoc" else st["p"].document
            if how == "reset":
                doc.reset(new)
            elif how == "assign":
                if target == "jobdoc":
                    st["job"].document = new
                else:
                    st["p"].doc = new
            elif how == "setitem":
                # key-wise edits produce several complete writes; the last one equals `new`
                for k in list(doc.keys()):
                    if k not in new:
                        del doc[k]
                for k, v in new.items():
                    doc[k] = v
            elif how == "buffered":
                with signac.buffered():
                    doc.reset(new)
                    _ = doc()

        rel = (os.path.join("workspace", model.model_id(SP), model.DOC_FILE) if target == "jobdoc" else model.PDOC_FILE)
        return setup, op, rel, old, new, "json", how == "setitem"
    if target == "cache":
        nold, nnew = {"first": (None, 3), "grow": (3, 6), "shrink": (6, 2), "grow-big": (5, 400)}[cname]

        def sps(n):
            return [{"a": i, "pad": "p" * 40} for i in range(n)]

        def setup(root):
            p = signac.init_project(root)
            if nold is not None:
                for sp in sps(nold):
                    p.open_job(sp).init()
                p.update_cache()
            cur = nold or 0
            if nnew > cur:
                for sp in sps(nnew)[cur:]:
                    p.open_job(sp).init()
            else:
                for sp in sps(cur)[nnew:]:
                    p.open_job(sp).remove()
            return {"p": signac.Project(root)}

        def op(root, st):
            st["p"].update_cache()

        old = None if nold is None else {model.model_id(sp): sp for sp in sps(nold)}
        new = {model.model_id(sp): sp for sp in sps(nnew)}
        return setup, op, model.CACHE_FILE, old, new, "gzjson", False
    if how == "migration":
        from signac._vendor.configobj import ConfigObj
        import shutil

        name = cname
        old = {"owner": "me"}
        new = {"owner": "me", "signac_project_name": name}

        def setup(root):
            p = signac.init_project(root)
            p.open_job(SP).init()
            p.document.reset(old)
            shutil.rmtree(os.path.join(root, ".signac"))
            cfg = ConfigObj()
            cfg.filename = os.path.join(root, "signac.rc")
            cfg["project"] = name
            cfg["schema_version"] = "1"
            cfg.write()
            return {}

        def op(root, st):
            import contextlib
            import io

            from signac.migration import apply_migrations

            with contextlib.redirect_stderr(io.StringIO()):
                apply_migrations(root)

        return setup, op, model.PDOC_FILE, old, new, "json", False
    raise ValueError(case)


def read_target(path, kind):
    """('absent',) | ('value', parsed) | ('broken', reason)"""
    if not os.path.exists(path):
        return ("absent",)
    try:
        if kind == "gzjson":
            with gzip.open(path, "rb") as f:
                return ("value", json.loads(f.read().decode()))
        with open(path, "rb") as f:
            return ("value", json.loads(f.read().decode()))
    except Exception as e:  # noqa
        return ("broken", f"{type(e).__name__}: {e}"[:200])


def api_read(root, case):
    import signac

    p = signac.Project(root)
    if case["target"] == "jobdoc":
        return model.plain(p.open_job(SP).document())
    if case["target"] == "projdoc":
        return model.plain(p.document())
    # cache: reading it must work and queries must not fail
    p.open_job({"probe": 1})
    return dict(p._sp_cache)


def next_write(root, case):
    """A fresh session completes one more write of the same target with short content. Returns that content."""
    import signac

    p = signac.Project(root)
    if case["target"] == "cache":
        jobs = sorted(p, key=lambda j: j.id)
        for job in jobs[1:]:
            job.remove()
        p.update_cache()
        return {j.id: model.plain(j.statepoint()) for j in jobs[:1]}
    short = {"z": 0}
    if case["target"] == "jobdoc":
        p.open_job(SP).document = short
    else:
        p.document = short
    return short


def acceptable(obs, old, new, intermediate_ok):
    if obs[0] == "absent":
        return old is None
    if obs[0] != "value":
        return False
    v = obs[1]
    if model.typed_eq(v, new) or (old is not None and model.typed_eq(v, old)):
        return True
    if intermediate_ok and isinstance(v, dict):
        # key-wise edits: every complete intermediate document is a mix of old and new keys
        for k, val in v.items():
            if not ((k in new and model.typed_eq(new[k], val)) or (old is not None and k in old and model.typed_eq(old[k], val))):
                return False
        return True
    return False


def run_reader_case(ctx, case):
    from . import c12  # the scheduler-based reader/writer exploration lives with the scheduler users

    c12.reader_writer_exploration(ctx, case, monitor="reader_between_writer_steps", prop=PROP)


def run_case(ctx, case):
    if case["target"] == "reader":
        return run_reader_case(ctx, case)
    setup, op, rel, old, new, kind, intermediate_ok = make(case)
    base = ctx.scratch("f")
    # 1. record
    root0 = os.path.join(base, "rec")
    os.makedirs(root0)
    rec = faultrun.run(setup, op, root0)
    if rec["outcome"] != "returned":
        raise RuntimeError(f"recording run failed: {rec}")
    steps = rec["steps"]
    ctx.monitor("atomic_policy")
    tname = os.path.basename(rel)
    for st in steps:
        ev = st["ev"]
        if st["kind"] in ("open", "truncate") and ev.split("(")[1].split(" ")[0].rstrip(")") == rel:
            ctx.violation("target-written-in-place", "the target file itself was opened for writing / truncated",
                          {"scenario": case, "step": st})
            return
    got = read_target(os.path.join(root0, rel), kind)
    if not (got[0] == "value" and model.typed_eq(got[1], new)):
        raise RuntimeError(f"unfaulted run did not produce the new content: {got[0]}")
    # 1b. the replacing step fails once (I/O error): whatever the code does next, it still never writes the target in
    # place - a crash or a reader could meet it at any of those steps
    import errno

    if case["part"] == 0:
        for st in steps:
            if st["kind"] not in ("rename", "replace") or not st["ev"].rstrip(")").endswith(rel):
                continue
            rootE = os.path.join(base, f"e{st['k']}")
            os.makedirs(rootE)
            resE = faultrun.run(setup, op, rootE, plan=("err", st["k"], errno.EIO))
            ctx.monitor("atomic_policy")
            for st2 in (resE.get("steps") or [])[st["k"] + 1:]:
                if st2["kind"] in ("open", "truncate") and st2.get("mut") and \
                        st2["ev"].split("(")[1].split(" ")[0].rstrip(")") == rel:
                    ctx.violation("target-written-in-place", "after a failed replacing step the target file itself was opened for writing / truncated",
                                  {"scenario": case, "failed_step": st["ev"], "step": st2})
                    return
            import shutil

            shutil.rmtree(rootE, ignore_errors=True)
    # 2. enumerate faults
    plans = []
    for st in steps:
        if not st["mut"]:
            continue
        plans.append(("crash", st["k"]))
        if st["kind"] == "write":
            if ctx.quick:
                sizes = faultrun.torn_sizes(st["len"])
            elif st["len"] <= 300:
                sizes = list(range(st["len"]))  # every prefix
            else:
                sizes = sorted(set(faultrun.torn_sizes(st["len"])) | {st["len"] * j // 16 for j in range(1, 16)} | {4095, 4096, 4097, 8192, 65535, 65536})
                sizes = [n for n in sizes if n < st["len"]]
            for n in sizes:
                plans.append(("torn", st["k"], n))
    plans = [p for j, p in enumerate(plans) if j % case["nparts"] == case["part"]]
    for j, plan in enumerate(plans):
        root = os.path.join(base, f"r{case['part']}_{j}")
        os.makedirs(root)
        res = faultrun.run(setup, op, root, plan=plan)
        if res["outcome"] != "crashed":
            ctx.count("fault_point_not_reached")
            ctx.extra.setdefault("divergences", []).append({"scenario": case, "plan": plan, "outcome": res["outcome"]})
            continue
        ctx.monitor("crash_before_step" if plan[0] == "crash" else "torn_write")
        ctx.distinct("nontrivial", [case["target"], case["content"], case["how"], plan])
        obs = read_target(os.path.join(root, rel), kind)
        ctx.monitor("file_old_or_new")
        wit = {"scenario": {k: case[k] for k in ("target", "content", "how")}, "plan": plan,
               "step": steps[plan[1]]["ev"], "steps": [s["ev"] for s in steps if s["mut"]][:14]}
        if not acceptable(obs, old, new, intermediate_ok):
            key = "torn-or-foreign-content-after-crash" if obs[0] == "value" else (
                "target-missing-after-crash" if obs[0] == "absent" else "unparsable-target-after-crash")
            wit["observed"] = obs[0] if obs[0] != "value" else "other-content"
            wit["detail"] = obs[1] if obs[0] == "broken" else None
            ctx.violation(key, "after a crash the target is neither the old nor the new content", wit)
            return
        if case["how"] == "migration":
            import shutil

            shutil.rmtree(root, ignore_errors=True)
            continue  # a half-migrated project is (rightly) refused by the API; only the raw file is judged
        ctx.monitor("api_reads_old_or_new")
        try:
            v = api_read(root, case)
        except Exception as e:  # noqa
            wit["error"] = f"{type(e).__name__}: {e}"[:200]
            ctx.violation("api-read-fails-after-crash", "a fresh session cannot read the target after a crash", wit)
            return
        if not acceptable(("value", v) if (v or obs[0] != "absent") else ("absent",), old, new, intermediate_ok):
            wit["api_value_keys"] = sorted(v)[:5] if isinstance(v, dict) else repr(v)[:100]
            ctx.violation("api-reads-other-content-after-crash", "a fresh session reads neither old nor new", wit)
            return
        ctx.monitor("leftovers_bounded")
        d = os.path.dirname(os.path.join(root, rel))
        stray = [f for f in (os.listdir(d) if os.path.isdir(d) else []) if f.startswith("._") or f.endswith("~")]
        if len(stray) > 1 or any(not (s.endswith(tname) or s == tname + "~") for s in stray):
            wit["stray"] = stray
            ctx.violation("too-many-stray-files-after-crash", "a crash left more than one stray temporary file", wit)
            return
        # the session after the crash writes again, next to whatever the crash left behind: a complete write of a
        # (much) shorter content must again leave exactly that content
        if stray:
            ctx.monitor("next_write_over_leftover")
            try:
                want = next_write(root, case)
                got2 = read_target(os.path.join(root, rel), kind)
            except Exception as e:  # noqa
                wit["error"] = f"{type(e).__name__}: {e}"[:200]
                ctx.violation("write-after-crash-fails", "the first write after a crash (leftover temporary file present) failed", wit)
                return
            if not (got2[0] == "value" and model.typed_eq(got2[1], want)):
                wit["observed"] = got2[0] if got2[0] != "value" else "other-content"
                wit["detail"] = got2[1] if got2[0] == "broken" else None
                wit["stray"] = stray
                ctx.violation("write-after-crash-leaves-garbage",
                              "the first complete write after a crash did not leave exactly the new content", wit)
                return
        import shutil

        shutil.rmtree(root, ignore_errors=True)
    ctx.sample({"scenario": {k: case[k] for k in ("target", "content", "how")}, "mutating_steps": [s["ev"] for s in steps if s["mut"]][:8],
                "fault_runs": len(plans)})
