"""C05 - job and project documents are faithful persistent dicts; buffering is transparent."""

import copy
import json
import os
import random

from .. import model, sig

PROP = "C05"
LEVEL = "exploration"
MONITORS = ["read_back", "other_handles", "file_on_disk", "fresh_handle", "buffered_same_files", "in_block_reads",
            "lifecycle_rebinds_document", "typed_and_none_values"]
RULE = (
    "Op sequences (item/attribute set, delete, update, setdefault, pop with default, clear, whole reset, nested "
    "dict set/del, list append/setitem/del/extend; length 1-40 random plus bounded-exhaustive length<=3 over a "
    "10-op reduced alphabet) on 1-3 job documents plus the project document through 1-3 handles each (handles "
    "from different Project objects, copy.copy siblings). Mode A (unbuffered): after every op the value through "
    "every handle, json.load of the file and a fresh handle are compared with a plain dict; remove()+init() and "
    "re-key are interleaved and the document must follow the job's current directory. Mode B: the same sequence "
    "is run unbuffered, fully inside signac.buffered() and with random nested sub-blocks for capacities "
    "{0,1,64,default}; file sets and parsed contents on exit must agree, reads inside a block through the writing "
    "handle must see the block's writes. Mode C: several handles on one document inside one block. Mode T: "
    "value universes containing Python-equal values of different JSON type and None over collections. Non-trivial "
    "and distinct = distinct (mode, op sequence) with >= 2 successful mutating ops."
)
RULE += (
    " " + 'Added later: whole resets whose new value is a live document object (this document, another one, or a sub-document of this one); handles naming the project directory in different ways; buffered blocks left by an exception or by KeyboardInterrupt; a new job created at a state point vacated by a re-key starts empty.'
    " In every third case DEBUG logging is effective for the package."
)
ASSUMPTIONS = [
    "pop(missing) returns None (dependency convention); keys colliding with protected attribute names are not used "
    "through attribute syntax.",
    "Inside a buffered block only reads through the writing handle are checked.",
    "After remove()/re-key through one handle, other *independent* handles on that job are re-created (their cached "
    "document object is bound to the old directory); Mode S keeps them to exhibit the stale-document finding.",
]
MANIFEST = {"technique": 'runtime monitoring: plain-dict reference model; buffered vs unbuffered differential runs', "engine": 'reference-model monitor'}
TIME_CAP = {"quick": 70, "thorough": 1500}

SCALARS = [1, 2.5, "s", False, None, "é"]
DICTS = [{"x": 1}, {"x": 2, "y": {"z": [1]}}, {}, {"d": {"x": 3}, "w": 2}]  # the last one holds its own key again
LISTS = [[1, 2], [], ["s", [1]]]
SLOTS = {"a": SCALARS, "b": SCALARS, "c_key": SCALARS, "d": DICTS, "l": LISTS}
TYPED_SLOTS = {"a": [1, 1.0, True, "1", None, {"x": 1}, [1]], "d": [{"x": 1}, {"x": 1.0}, None, [1], {"x": True}]}


def rand_doc_op(rng, slots):
    r = rng.random()
    k = rng.choice(list(slots))
    v = copy.deepcopy(rng.choice(slots[k]))
    if r < 0.22:
        return ["set", k, v]
    if r < 0.30:
        return ["setattr", k, v]
    if r < 0.38:
        return ["del", k]
    if r < 0.50:
        k2 = rng.choice(list(slots))
        return ["update", {k: v, k2: copy.deepcopy(rng.choice(slots[k2]))}]
    if r < 0.56:
        return ["setdefault", k, v]
    if r < 0.62:
        return ["pop", k]
    if r < 0.65:
        return ["clear"]
    if r < 0.72:
        ks = rng.sample(list(slots), rng.randint(0, min(3, len(slots))))
        return ["reset", {kk: copy.deepcopy(rng.choice(slots[kk])) for kk in ks}]
    if r < 0.80:
        return ["nset", "d", rng.choice(["x", "w"]), rng.choice([1, 3, "s", [1]])]
    if r < 0.84:
        return ["ndel", "d", rng.choice(["x", "w"])]
    if r < 0.90:
        return ["lappend", "l", rng.choice([1, "s", [2]])]
    if r < 0.94:
        return ["lset", "l", 0, rng.choice([5, "t"])]
    if r < 0.97:
        return ["ldel", "l", 0]
    return ["lextend", "l", [7, 8]]


REDUCED = [
    ["set", "a", 1], ["set", "a", "s"], ["set", "d", {"x": 1}], ["nset", "d", "x", 3], ["del", "a"],
    ["update", {"a": 2.5, "l": [1, 2]}], ["lappend", "l", 1], ["clear"], ["reset", {"b": None}], ["pop", "a"],
    ["reset_live", 0, 1],
]


def apply_model(m, op):
    """Apply op to plain dict m. Returns (applicable, return_value)."""
    kind = op[0]
    if kind in ("set", "setattr"):
        m[op[1]] = copy.deepcopy(op[2])
    elif kind == "del":
        if op[1] not in m:
            return False, None
        del m[op[1]]
    elif kind == "update":
        m.update(copy.deepcopy(op[1]))
    elif kind == "setdefault":
        return True, m.setdefault(op[1], copy.deepcopy(op[2]))
    elif kind == "pop":
        return True, m.pop(op[1], None)
    elif kind == "clear":
        m.clear()
    elif kind == "reset":
        m.clear()
        m.update(copy.deepcopy(op[1]))
    elif kind == "nset":
        if not isinstance(m.get(op[1]), dict):
            return False, None
        m[op[1]][op[2]] = copy.deepcopy(op[3])
    elif kind == "ndel":
        if not isinstance(m.get(op[1]), dict) or op[2] not in m[op[1]]:
            return False, None
        del m[op[1]][op[2]]
    elif kind == "lappend":
        if not isinstance(m.get(op[1]), list):
            return False, None
        m[op[1]].append(copy.deepcopy(op[2]))
    elif kind == "lset":
        if not isinstance(m.get(op[1]), list) or len(m[op[1]]) <= op[2]:
            return False, None
        m[op[1]][op[2]] = copy.deepcopy(op[3])
    elif kind == "ldel":
        if not isinstance(m.get(op[1]), list) or len(m[op[1]]) <= op[2]:
            return False, None
        del m[op[1]][op[2]]
    elif kind == "lextend":
        if not isinstance(m.get(op[1]), list):
            return False, None
        m[op[1]].extend(copy.deepcopy(op[2]))
    else:
        raise ValueError(kind)
    return True, None


def apply_real(doc, op):
    kind = op[0]
    if kind == "set":
        doc[op[1]] = copy.deepcopy(op[2])
    elif kind == "setattr":
        setattr(doc, op[1], copy.deepcopy(op[2]))
    elif kind == "del":
        del doc[op[1]]
    elif kind == "update":
        doc.update(copy.deepcopy(op[1]))
    elif kind == "setdefault":
        return doc.setdefault(op[1], copy.deepcopy(op[2]))
    elif kind == "pop":
        return doc.pop(op[1], None)
    elif kind == "clear":
        doc.clear()
    elif kind == "reset":
        doc.reset(copy.deepcopy(op[1]))
    elif kind == "nset":
        doc[op[1]][op[2]] = copy.deepcopy(op[3])
    elif kind == "ndel":
        del doc[op[1]][op[2]]
    elif kind == "lappend":
        doc[op[1]].append(copy.deepcopy(op[2]))
    elif kind == "lset":
        doc[op[1]][op[2]] = copy.deepcopy(op[3])
    elif kind == "ldel":
        del doc[op[1]][op[2]]
    elif kind == "lextend":
        doc[op[1]].extend(copy.deepcopy(op[2]))
    return None


def gen_cases(ctx):
    import itertools

    i = 0
    rng = ctx.grng("c05")
    L = 3
    for n in range(1, L + 1):
        for combo in itertools.product(range(len(REDUCED)), repeat=n):
            if ctx.take(i):
                ops = [[0, k % 2, copy.deepcopy(REDUCED[c])] for k, c in enumerate(combo)]
                yield {"mode": "A", "ndocs": 1, "nh": 2, "ops": ops, "exh": True}
            i += 1
    for _ in range(ctx.budget(16000, 200000)):
        mode = rng.choice(["A", "A", "A", "B", "B", "B", "C", "T", "S"])
        ndocs = rng.randint(1, 4)
        nh = rng.randint(1, 3)
        slots = TYPED_SLOTS if mode == "T" else SLOTS
        nops = rng.choice([3, 8, 15, 40])
        ops = []
        for _k in range(nops):
            t = rng.randrange(ndocs)
            h = rng.randrange(nh)
            if mode in ("A", "S") and rng.random() < 0.08:
                ops.append([t, h, [rng.choice(["remove_init", "rekey"])]])
            elif mode in ("A", "B") and rng.random() < 0.03:
                # a sub-document of this document is promoted to be the whole document
                ops.append([t, h, ["reset_live_sub", "d"]])
            elif mode in ("A", "B") and rng.random() < 0.05:
                # whole reset whose new value is a live document object: this document itself (through the same or
                # another handle) or another job's / the project's document
                ops.append([t, h, ["reset_live", rng.randrange(ndocs), rng.randrange(nh)]])
            else:
                ops.append([t, h, rand_doc_op(rng, slots)])
        case = {"mode": mode, "ndocs": ndocs, "nh": nh, "ops": ops}
        if mode in ("B", "C"):
            case["capacity"] = rng.choice([0, 1, 64, None])
            case["bseed"] = rng.getrandbits(32)
        if ctx.take(i):
            yield case
        i += 1


class Docs:
    """ndocs documents (index 0 = project document if ndocs == 4 else job documents) with nh handles each."""

    def __init__(self, ctx, ndocs, nh, tag):
        import signac

        self.signac = signac
        self.project = sig.new_project(ctx, tag)
        self.path = self.project.path
        # the handles name the project directory in different (equivalent) ways
        spelt = [self.path, os.path.join(self.path, "workspace", ".."), self.path + os.sep + "." + os.sep]
        self.P = [signac.Project(spelt[h % 3]) for h in range(nh)]
        self.ndocs, self.nh = ndocs, nh
        self.sps = [{"j": k} for k in range(ndocs)]
        self.is_project_doc = [k == 3 for k in range(ndocs)]
        self.jobs = []
        for k in range(ndocs):
            if self.is_project_doc[k]:
                self.jobs.append(None)
            else:
                hs = []
                for h in range(nh):
                    if h == 2:
                        hs[0].statepoint()  # materialise first so that the copy is linked (C03/C04 finding otherwise)
                        hs.append(copy.copy(hs[0]))
                    else:
                        hs.append(self.P[h].open_job(copy.deepcopy(self.sps[k])))
                self.jobs.append(hs)
        self.model = [dict() for _ in range(ndocs)]
        self.touched = [False] * ndocs
        self.linked = {}

    def doc(self, t, h):
        if self.is_project_doc[t]:
            return self.P[h].document
        return self.jobs[t][h].document

    def assign(self, t, h, mapping, alias):
        """Whole-document assignment through the owner's property setter."""
        owner = self.P[h] if self.is_project_doc[t] else self.jobs[t][h]
        if alias:
            owner.doc = mapping
        else:
            owner.document = mapping

    def filename(self, t):
        if self.is_project_doc[t]:
            return os.path.join(self.path, model.PDOC_FILE)
        return os.path.join(self.path, "workspace", model.model_id(self.sps[t]), model.DOC_FILE)

    def file_value(self, t):
        try:
            return model.read_json(self.filename(t))
        except FileNotFoundError:
            return None

    def fresh_value(self, t):
        p = self.signac.Project(self.path)
        if self.is_project_doc[t]:
            return model.plain(p.document())
        return model.plain(p.open_job(copy.deepcopy(self.sps[t])).document())

    def tree(self):
        """{relative file name: parsed json} of all document files."""
        out = {}
        for t in range(self.ndocs):
            v = self.file_value(t)
            if v is not None:
                out[f"doc{t}"] = v
        return out


def mismatch_slots(real, mod):
    """Top-level keys on which two plain dicts differ (typed)."""
    keys = set(real) | set(mod)
    return sorted(k for k in keys if k not in real or k not in mod or not model.typed_eq(real[k], mod[k]))


def only_typed_or_none_mismatch(real, mod):
    """Every difference is 'Python-equal but differently typed' or 'None where a collection stayed'."""
    if not isinstance(real, dict) or not isinstance(mod, dict):
        return False
    diff = mismatch_slots(real, mod)
    if not diff:
        return False
    for k in diff:
        if k not in real or k not in mod:
            return False
        r, m = real[k], mod[k]
        if m is None and isinstance(r, (dict, list)):
            continue
        if isinstance(r, dict) and isinstance(m, dict):
            if r == m or only_typed_or_none_mismatch(r, m):
                continue
            return False
        try:
            if r == m:
                continue
        except Exception:
            pass
        return False
    return True


def run_mode_A(ctx, case, stale=False):
    D = Docs(ctx, case["ndocs"], case["nh"], "a")
    nmut = 0
    loaded = {}  # (t, h) -> True once that handle created its document object
    for t, h, op in case["ops"]:
        t %= D.ndocs
        h %= D.nh
        if op[0] in ("remove_init", "rekey"):
            if D.is_project_doc[t]:
                continue
            job = D.jobs[t][h]
            ctx.monitor("lifecycle_rebinds_document")
            try:
                if op[0] == "remove_init":
                    job.remove()
                    job.init()
                    D.model[t] = {}
                else:
                    if not os.path.isdir(job.path):
                        continue
                    old_sp = dict(D.sps[t])
                    new_sp = dict(D.sps[t])
                    new_sp["r"] = new_sp.get("r", 0) + 1
                    held = job.document if D.model[t] else None  # noqa: F841  (a reference the program may keep)
                    job.sp["r"] = new_sp["r"]
                    D.sps[t] = new_sp
                    if new_sp["r"] % 2 and not stale:  # (Mode S: stale handles may have written to the old path since)
                        # a new job takes the vacated state point: its document starts empty, whatever the former
                        # occupant's document objects still hold
                        ctx.monitor("vacated_id_document_empty")
                        vac = D.P[h].open_job(copy.deepcopy(old_sp))
                        vac.init()
                        seen = model.plain(vac.document())
                        vac.document["fresh"] = 1
                        on_disk = model.read_json(vac.fn(model.DOC_FILE))
                        vac.remove()
                        if seen != {} or on_disk != {"fresh": 1}:
                            ctx.violation("new-job-inherits-document-of-former-occupant",
                                          "a job created at a state point vacated by a re-key does not start with an empty document",
                                          {"seen": seen, "file_after_first_write": on_disk, "former_document": D.model[t]})
                            return
            except (KeyError, OSError):
                if not stale:
                    raise
                # Mode S keeps handles that another handle's remove / re-key left behind; a lifecycle
                # operation through such a handle may raise (C03's subject, open finding
                # stale-handle-rekey-keyerror-from-lock-registry).  Not a document operation: the history ends.
                ctx.count("stale_handle_lifecycle_raise_accepted")
                return
            # other independent handles are bound to the old directory / hold the old content
            linked = D.linked.setdefault(t, True)  # jobs[t][2] is a copy.copy of the current jobs[t][0] object
            for hh in range(D.nh):
                if hh == h:
                    continue
                if stale and (t, hh) in loaded:
                    continue  # keep it: Mode S
                if op[0] == "rekey" and linked and {h, hh} == {0, 2}:
                    continue  # a linked copy.copy sibling follows a re-key
                if hh == 2:
                    D.jobs[t][0].statepoint()
                    D.jobs[t][2] = copy.copy(D.jobs[t][0])
                    D.linked[t] = True
                else:
                    D.jobs[t][hh] = D.P[hh].open_job(copy.deepcopy(D.sps[t]))
                    if hh == 0 and D.nh > 2 and h == 2:
                        D.linked[t] = False  # the acting sibling keeps pointing at the old original
                loaded.pop((t, hh), None)
            continue
        live = None
        sub = None
        if op[0] == "reset_live":
            live = ((t + op[1]) % D.ndocs, (h + op[2]) % D.nh)
            mcopy, ok, mret = copy.deepcopy(D.model[live[0]]), True, None
        elif op[0] == "reset_live_sub":
            sub = op[1]
            ok = isinstance(D.model[t].get(sub), dict)
            mcopy, mret = copy.deepcopy(D.model[t].get(sub)), None
        else:
            mcopy = copy.deepcopy(D.model[t])
            ok, mret = apply_model(mcopy, op)
        if not ok:
            continue
        if op[0] == "setattr" and not op[1].isidentifier():
            continue
        try:
            doc = D.doc(t, h)
            loaded[(t, h)] = True
            if live:
                ctx.monitor("reset_to_live_document")
                loaded[live] = True
                D.assign(t, h, D.doc(*live), alias=(op[1] + op[2]) % 2 == 0)
                rret = None
            elif sub:
                ctx.monitor("reset_to_live_document")
                D.assign(t, h, doc[sub], alias=len(mcopy) % 2 == 0)
                rret = None
            elif op[0] == "reset" and len(op[1]) % 2 == 0:
                D.assign(t, h, copy.deepcopy(op[1]), alias=len(op[1]) == 2)
                rret = None
            else:
                rret = apply_real(doc, op)
        except Exception as e:  # noqa
            if stale and isinstance(e, FileNotFoundError):
                # an independent handle whose job directory was re-keyed / removed by another handle may
                # raise OSError with no state change (DESIGN C05); the history ends here
                ctx.count("stale_handle_enoent_accepted")
                fv = D.file_value(t)
                if not model.typed_eq(fv if fv is not None else {}, D.model[t]):
                    ctx.violation("stale-handle-error-changed-file", "a raising document op changed the file",
                                  {"op": op, "file": fv, "model": D.model[t]})
                return
            ctx.violation("document-op-raises", f"{op} raised {type(e).__name__}: {e}",
                          {"op": op, "model": D.model[t]})
            return
        D.model[t] = mcopy
        D.touched[t] = True
        nmut += 1
        ctx.monitor("read_back")
        problems = []
        if op[0] in ("setdefault", "pop") and not model.typed_eq(model.plain(rret), mret):
            problems.append(("return", model.plain(rret), mret))
        rv = model.plain(doc())
        if not model.typed_eq(rv, D.model[t]):
            problems.append(("read-back", rv))
        ctx.monitor("other_handles")
        for hh in range(D.nh):
            if hh == h:
                continue
            try:
                ov = model.plain(D.doc(t, hh)())
                loaded[(t, hh)] = True
            except Exception as e:  # noqa
                problems.append(("other-handle-raises", hh, repr(e)))
                continue
            if not model.typed_eq(ov, D.model[t]):
                problems.append(("other-handle", hh, ov))
        ctx.monitor("file_on_disk")
        fv = D.file_value(t)
        if not model.typed_eq(fv if fv is not None else {}, D.model[t]):
            problems.append(("file", fv))
        ctx.monitor("fresh_handle")
        fr = D.fresh_value(t)
        if not model.typed_eq(fr, D.model[t]):
            problems.append(("fresh", fr))
        if problems:
            reals = [p[-1] for p in problems if p[0] in ("read-back", "other-handle", "file", "fresh") and isinstance(p[-1], dict)]
            if case["mode"] == "T" and reals and all(only_typed_or_none_mismatch(r, D.model[t]) for r in reals) \
                    and len(reals) == len(problems):
                key = "python-equal-or-none-value-kept-by-inplace-update"
            elif stale:
                key = "stale-document-resurrected-after-remove"
            else:
                key = "document-differs-from-dict-model"
            ctx.violation(key, "document value / file differs from the plain-dict model",
                          {"op": [t, h, op], "model": D.model[t], "problems": problems[:5]})
            return
    if nmut >= 2:
        ctx.distinct("nontrivial", [case["mode"], case["ops"]])
    if case["mode"] == "T":
        ctx.monitor("typed_and_none_values")


def run_buffered(ctx, case, multi_handle):
    import signac

    rng = random.Random(case["bseed"])
    ops = case["ops"]
    nh = case["nh"] if multi_handle else 1
    # block structure: list of (start, end) for regime 'blocks'
    regimes = ["none", "full", "blocks"]
    results = {}
    old_cap = signac.get_buffer_capacity()
    try:
        if case.get("capacity") is not None:
            signac.set_buffer_capacity(case["capacity"])
        for regime in regimes:
            D = Docs(ctx, case["ndocs"], max(nh, 1), regime[0])
            brng = random.Random(case["bseed"])
            lrng = random.Random(case["bseed"] + 1)
            stack = []
            used_in_block = {}
            problems = []

            def enter():
                cm = signac.buffered()
                cm.__enter__()
                stack.append(cm)

            def leave():
                # a block is left normally, by an ordinary exception, or by one that is not an Exception (Ctrl-C,
                # sys.exit) and is handled further up: the block's writes are flushed all the same
                cm = stack.pop()
                how = lrng.choice(["normal", "normal", "exception", "base"])
                if how == "normal":
                    try:
                        cm.__exit__(None, None, None)
                    except BaseException as e:  # noqa
                        e._vf_on_exit = True
                        raise
                else:
                    exc = ValueError("leave") if how == "exception" else KeyboardInterrupt("leave")
                    ctx.count("buffered_block_left_by_" + how)
                    try:
                        cm.__exit__(type(exc), exc, None)
                    except BaseException as e:  # noqa: a generator-based context manager re-raises what it was thrown
                        if e is not exc:
                            e._vf_on_exit = True
                            raise
                if not stack:
                    used_in_block.clear()

            try:
                if regime == "full":
                    enter()
                for t, h, op in ops:
                    t %= D.ndocs
                    h = (h % nh) if multi_handle else 0
                    if regime == "blocks":
                        r = brng.random()
                        if r < 0.2 and len(stack) < 3:
                            enter()
                        elif r < 0.35 and stack:
                            leave()
                    live = None
                    sub = None
                    if op[0] == "reset_live":
                        live = ((t + op[1]) % D.ndocs, ((h + op[2]) % nh) if multi_handle else 0)
                        mcopy, ok, mret = copy.deepcopy(D.model[live[0]]), True, None
                    elif op[0] == "reset_live_sub":
                        sub = op[1]
                        ok = isinstance(D.model[t].get(sub), dict)
                        mcopy, mret = copy.deepcopy(D.model[t].get(sub)), None
                    else:
                        mcopy = copy.deepcopy(D.model[t])
                        ok, mret = apply_model(mcopy, op)
                    if not ok or (op[0] == "setattr" and not op[1].isidentifier()):
                        continue
                    doc = D.doc(t, h)
                    if live:
                        ctx.monitor("reset_to_live_document")
                        D.assign(t, h, D.doc(*live), alias=(op[1] + op[2]) % 2 == 0)
                        rret = None
                    elif sub:
                        ctx.monitor("reset_to_live_document")
                        D.assign(t, h, doc[sub], alias=len(mcopy) % 2 == 0)
                        rret = None
                    elif op[0] == "reset" and len(op[1]) % 2 == 0:
                        D.assign(t, h, copy.deepcopy(op[1]), alias=len(op[1]) == 2)
                        rret = None
                    else:
                        rret = apply_real(doc, op)
                    D.model[t] = mcopy
                    if stack:
                        used_in_block.setdefault(t, set()).add(h)
                    # reads through the writing handle see the writes (inside and outside blocks)
                    ctx.monitor("in_block_reads")
                    rv = model.plain(doc())
                    if not model.typed_eq(rv, D.model[t]):
                        problems.append(("read-through-writer", [t, h, op], rv, copy.deepcopy(D.model[t]), bool(stack)))
                        break
                while stack:
                    leave()
            except Exception as e:  # noqa
                while stack:
                    try:
                        leave()
                    except Exception:
                        stack.clear()
                # an exception out of a block's exit is the buffering layer speaking; one out of an operation may just be
                # the operation meeting data that an earlier (silent) divergence left behind
                problems.append(("raised-on-exit" if getattr(e, "_vf_on_exit", False) else "raised", type(e).__name__, str(e)[:200]))
            results[regime] = (D.tree(), [copy.deepcopy(m) for m in D.model], problems, D)
    finally:
        signac.set_buffer_capacity(old_cap)
    base_tree, base_model, base_problems, _ = results["none"]
    if base_problems:
        ctx.violation("document-differs-from-dict-model", "unbuffered run disagrees with the model",
                      {"problems": base_problems[:3]})
        return
    for regime in ("full", "blocks"):
        tree, mod, problems, D = results[regime]
        ctx.monitor("buffered_same_files")
        bad = list(problems)
        if set(tree) != set(base_tree):
            # a document that was only ever emptied may legitimately have no file in either run
            missing = {k for k in set(base_tree) ^ set(tree)
                       if not (base_tree.get(k, {}) == {} and tree.get(k, {}) == {})}
            if missing:
                bad.append(("file-set-differs", sorted(set(base_tree)), sorted(set(tree))))
        for k in set(tree) & set(base_tree):
            if not model.typed_eq(tree[k], base_tree[k]):
                bad.append(("content-differs", k, tree[k], base_tree[k]))
        if bad:
            key = "buffered-run-differs-from-unbuffered"
            if multi_handle:
                key = "buffered-multi-handle-lost-update"
                if any(b[0] == "raised-on-exit" for b in bad):
                    # the known lost-update mechanism is silent (at most a later operation trips over the lost data);
                    # an exception out of the block's exit is something else
                    key = "buffered-multi-handle-block-raises"
            ctx.violation(key, f"buffered regime '{regime}' leaves different documents than the unbuffered run",
                          {"regime": regime, "capacity": case.get("capacity"), "problems": bad[:4]})
            return
    ctx.distinct("nontrivial", [case["mode"], case.get("capacity"), case["ops"]])


def run_case(ctx, case):
    mode = case["mode"]
    if mode in ("A", "T"):
        run_mode_A(ctx, case)
    elif mode == "S":
        run_mode_A(ctx, case, stale=True)
    elif mode == "B":
        run_buffered(ctx, case, multi_handle=False)
    elif mode == "C":
        run_buffered(ctx, case, multi_handle=True)
    if not case.get("exh"):
        ctx.sample({"mode": mode, "ops": case["ops"][:6], "n": len(case["ops"])})
