"""C17 - a linked view is an exact, self-healing picture of the selected jobs."""

import copy
import os
import random

from .. import fsmon, model, sig

PROP = "C17"
LEVEL = "exploration"
MONITORS = ["view_structure", "incremental_equals_scratch", "second_call_readonly", "rejected_input_keeps_view"]
RULE = (
    "Workspaces over homogeneous, typed (1 / 1.0 / '1' / True), heterogeneous, nested, list-valued and string "
    "(spaces, dots, unicode, path separators, '..', empty) state point universes with 0, 1 and many jobs x histories "
    "of {create view, add job, remove job, re-key job, create view again} with job_ids subsets and custom path "
    "specs (format strings, {{auto}} variants, callables); length<=4 exhaustive over a 7-op alphabet on a tiny "
    "universe, random up to length 12. After every successful create_linked_view the view is walked without "
    "following links: exactly one link 'job' per selected job resolving to its directory, path components = "
    "alternating key/value tokens of the job's own flattened state point covering exactly the distinguishing keys, "
    "no files / dangling links / empty directories; the incremental result equals a from-scratch build in a new "
    "prefix; a second identical call issues no mutating FS call. A RuntimeError must leave the existing view "
    "untouched. Non-trivial and distinct = distinct histories with >= 2 successful view updates over >= 2 jobs."
)
RULE += (
    " " + 'Added later: unnormalised path specs; selections given as one-shot iterables or empty; an unrepresentable layout with a sibling that sorts between the conflicting paths.'
    " In every third case DEBUG logging is effective for the package."
)
ASSUMPTIONS = [
    "When >= 2 jobs are selected and one of them has no distinguishing key at all, RuntimeError (view unchanged) or a "
    "structurally valid view are both accepted (the repository's own test expects RuntimeError).",
    "Value tokens are compared with str(value) (lists spelled as tuples).",
]
MANIFEST = {"technique": 'runtime monitoring: structural oracle on the walked view, incremental-vs-scratch differential, FS-call monitor (second call, P-contain)', "engine": 'fs-call monitor (audit hook)'}
TIME_CAP = {"quick": 70, "thorough": 1500}

UNIVERSES = {
    "homog": [{"a": i, "b": j} for i in (0, 1, 2) for j in ("x", "y")],
    "typed": [{"a": 1}, {"a": 1.0}, {"a": "1"}, {"a": True}, {"a": 2}, {"a": "True"}],
    "hetero": [{"a": 1}, {"a": 2}, {"a": 1, "b": 2}, {"b": 3, "c": "z"}, {"a": 2, "c": "z"}],
    "nested": [{"n": {"x": 1}}, {"n": {"x": 2}}, {"n": {"x": 1, "y": 0}}, {"n": {"x": 2}, "a": 1}, {"n": 5}],
    "strings": [{"a": "x y"}, {"a": "x.y"}, {"a": "é"}, {"a": "x"}, {"a": "a"}, {"a": "job"}],
    "bad": [{"a": "x/y"}, {"a": "x"}, {"a": ".."}, {"a": ""}, {"a/b": 1}],
    "lists": [{"a": [1, 2]}, {"a": [1, 3]}, {"a": [2]}, {"a": [1, 2], "b": 1}],
}
PATHS = [None, None, None, "a/{a}", "{{auto}}", "x/{{auto:_}}", "{job.id}", "callable-id", False,
         # legal but not normalised: doubled separator, leading './', {{auto}} (possibly empty) in mid-spec
         "id//{job.id}", "./{{auto}}", "v/{{auto}}/id/{job.id}",
         # '..' swallows the distinguishing component: every job lands on 'same/job' (refused unless there is one job)
         "{job.id}/../same"]


def rand_op(rng, nuni):
    r = rng.random()
    if r < 0.35:
        return ["view", rng.choice(PATHS), rng.choice([None, None, "subset"]), rng.getrandbits(16)]
    if r < 0.6:
        return ["add", rng.randrange(nuni)]
    if r < 0.75:
        return ["remove", rng.randrange(8)]
    return ["rekey", rng.randrange(8), rng.randrange(nuni)]


def gen_cases(ctx):
    import itertools

    i = 0
    alpha = [["add", 0], ["add", 1], ["add", 2], ["remove", 0], ["rekey", 0, 3], ["view", None, None, 0],
             ["view", None, "subset", 5]]
    L = 3 if ctx.quick else 4
    for uni in ("homog", "typed"):
        for n in range(1, L + 1):
            for combo in itertools.product(range(len(alpha)), repeat=n):
                if not any(alpha[c][0] == "view" for c in combo):
                    continue
                if ctx.take(i):
                    yield {"uni": uni, "ops": [copy.deepcopy(alpha[c]) for c in combo] + [["view", None, None, 0]], "exh": True}
                i += 1
    rng = ctx.grng("c17")
    for _ in range(ctx.budget(20000, 200000)):
        uni = rng.choice(sorted(UNIVERSES))
        ops = [rand_op(rng, len(UNIVERSES[uni])) for _ in range(rng.choice([3, 6, 12]))]
        ops.append(["view", rng.choice(PATHS), None, 0])
        if ctx.take(i):
            yield {"uni": uni, "ops": ops}
        i += 1


def path_arg(spec):
    if spec == "callable-id":
        return lambda job: os.path.join("by_id", job.id)
    if spec == "callable-conflict":
        # some job's link is a directory on the way to another job's link, with a sibling whose name sorts in
        # between ('x/job', 'x/job-old/job', 'x/job/job'): cannot be represented, must be refused
        return lambda job: ("x", "x/job", "x/job-old", "x/job.1")[int(job.id[:2], 16) % 4]
    return spec


def walk_view(prefix):
    """(links {relpath: resolved target}, dirs set, files set, dangling list)."""
    links, dirs, files, dangling = {}, set(), set(), []
    if not os.path.lexists(prefix):
        return links, dirs, files, dangling
    for dp, dn, fn in os.walk(prefix, followlinks=False):
        rel = os.path.relpath(dp, prefix)
        for name in list(dn) + list(fn):
            p = os.path.join(dp, name)
            r = os.path.normpath(os.path.join(rel, name))
            if os.path.islink(p):
                tgt = os.path.realpath(p)
                links[r] = tgt
                if not os.path.exists(tgt):
                    dangling.append(r)
            elif os.path.isdir(p):
                dirs.add(r)
            else:
                files.add(r)
    return links, dirs, files, dangling


def distinguishing(sps):
    flat = [model.flatten(sp) for sp in sps]
    keys = set().union(*[set(f) for f in flat]) if flat else set()
    D = set()
    for k in keys:
        vals = [model.tkey(f[k]) if k in f and not isinstance(f[k], dict) else None for f in flat]
        present = [k in f and not isinstance(f[k], dict) for f in flat]
        if not all(present) or len(set(vals)) > 1:
            if any(present):
                D.add(k)
    return D


def tok(v):
    if isinstance(v, list):
        return str(tuple(tuple(x) if isinstance(x, list) else x for x in v))
    return str(v)


def check_structure(ctx, W, prefix, selected, path_spec, what):
    """selected: {id: sp}. Returns list of problems."""
    links, dirs, files, dangling = walk_view(prefix)
    problems = []
    if files:
        problems.append(("plain-files", sorted(files)))
    if dangling:
        problems.append(("dangling-links", dangling))
    by_target = {}
    for rel, tgt in links.items():
        by_target.setdefault(tgt, []).append(rel)
        if os.path.basename(rel) != "job":
            problems.append(("link-not-named-job", rel))
    want_targets = {os.path.realpath(os.path.join(W, "workspace", jid)): jid for jid in selected}
    for tgt, jid in want_targets.items():
        n = len(by_target.get(tgt, []))
        if n != 1:
            problems.append(("links-for-job", jid, n))
    for tgt in by_target:
        if tgt not in want_targets:
            problems.append(("link-to-unselected-or-foreign-target", by_target[tgt], tgt))
    # every directory leads to a link
    needed = set()
    for rel in links:
        d = os.path.dirname(rel)
        while d and d != ".":
            needed.add(d)
            d = os.path.dirname(d)
    if dirs - needed:
        problems.append(("empty-or-useless-directories", sorted(dirs - needed)))
    # path tokens (automatic spec only)
    if path_spec is None and len(selected) >= 2 and not problems:
        D = distinguishing(list(selected.values()))
        for tgt, jid in want_targets.items():
            rel = by_target[tgt][0]
            comps = os.path.dirname(rel).split(os.sep) if os.path.dirname(rel) else []
            flat = {k: v for k, v in model.flatten(selected[jid]).items() if not isinstance(v, dict)}
            if len(comps) % 2:
                problems.append(("odd-number-of-path-tokens", rel))
                continue
            ks, vs = comps[0::2], comps[1::2]
            for k, v in zip(ks, vs):
                if k not in flat or tok(flat[k]) != v:
                    problems.append(("token-not-an-item-of-the-job", rel, k, v))
            if set(ks) != {k for k in D if k in flat} or len(ks) != len(set(ks)):
                problems.append(("keys-not-exactly-distinguishing", rel, sorted(ks), sorted(k for k in D if k in flat)))
    return problems, links, dirs


def run_case(ctx, case):
    import signac

    project = sig.new_project(ctx, "v")
    W = project.path
    prefix = os.path.join(W, "view")
    uni = UNIVERSES[case["uni"]]
    m = {}  # id -> sp
    nviews = 0
    step = 0

    def viol(key, what, wit):
        wit = dict(wit)
        wit["ops"] = case["ops"][:step]
        wit["jobs"] = list(m.values())
        ctx.violation(key, what, wit)

    for op in case["ops"]:
        step += 1
        P = signac.Project(W)
        if op[0] == "add":
            sp = uni[op[1] % len(uni)]
            try:
                P.open_job(copy.deepcopy(sp)).init()
                m[model.model_id(sp)] = copy.deepcopy(sp)
            except Exception:
                pass
        elif op[0] == "remove":
            if m:
                jid = sorted(m)[op[1] % len(m)]
                P.open_job(id=jid).remove()
                del m[jid]
        elif op[0] == "rekey":
            if m:
                jid = sorted(m)[op[1] % len(m)]
                new = uni[op[2] % len(uni)]
                nid = model.model_id(new)
                from ..world import _has_equal_typed_conflict

                if nid in m or _has_equal_typed_conflict(m[jid], new):
                    continue
                try:
                    P.open_job(id=jid).statepoint = copy.deepcopy(new)
                except Exception:
                    continue
                del m[jid]
                m[nid] = copy.deepcopy(new)
        elif op[0] == "view":
            _, spec, subset, sseed = op
            if subset == "subset" and m:
                r = random.Random(sseed)
                ids = r.sample(sorted(m), r.randint(0, len(m)))  # the empty selection included
            else:
                ids = None
            selected = {j: m[j] for j in (ids if ids is not None else m)}
            before = model.snapshot(prefix)
            with fsmon.Session([W], contain=[prefix]) as s:
                # the selection is documented as an iterable of ids: a list, or something that can be walked only once
                ids_arg = ids
                if ids is not None and sseed % 3 == 1:
                    ids_arg = iter(list(ids))
                elif ids is not None and sseed % 3 == 2:
                    ids_arg = (i for i in list(ids))
                if ids_arg is not ids:
                    ctx.count("selection_given_as_one_shot_iterable")
                ret, err = sig.exc_name(P.create_linked_view, prefix=prefix, job_ids=ids_arg, path=path_arg(spec))
            stray = [h for h in s.policy_hits if h[0] == "contain"]
            if stray:
                viol("view-writes-outside-prefix", "create_linked_view wrote outside its prefix", {"hits": stray[:4]})
                return
            if err is not None:
                ctx.monitor("rejected_input_keeps_view")
                after = model.snapshot(prefix)
                if not isinstance(err, RuntimeError):
                    viol("view-raises-other-exception", f"create_linked_view raised {type(err).__name__}: {err}",
                         {"spec": spec, "selected": list(selected.values())})
                    return
                if after != before:
                    viol("rejected-input-altered-view", "RuntimeError was raised but the existing view changed",
                         {"diff": model.snap_diff(before, after), "error": str(err)[:200], "spec": spec})
                    return
                continue
            ctx.monitor("view_structure")
            problems, links, dirs = check_structure(ctx, W, prefix, selected, spec, "incremental")
            if problems:
                kinds = {p[0] for p in problems}
                key = "view-structure-wrong"
                if kinds <= {"links-for-job"} and len(links) < len(selected):
                    key = "colliding-paths-lose-a-link"
                elif "empty-or-useless-directories" in kinds:
                    key = "view-leaves-empty-directories"
                elif "dangling-links" in kinds or "link-to-unselected-or-foreign-target" in kinds:
                    key = "view-keeps-obsolete-links"
                viol(key, "the view is not an exact picture of the selected jobs",
                     {"problems": problems[:5], "spec": spec, "selected": list(selected.values()),
                      "links": sorted(links)})
                return
            # from scratch
            ctx.monitor("incremental_equals_scratch")
            scratch = os.path.join(W, f"scratch_view_{step}")
            ret2, err2 = sig.exc_name(signac.Project(W).create_linked_view, prefix=scratch, job_ids=ids, path=path_arg(spec))
            if err2 is not None:
                viol("scratch-build-raises", f"building the same view from scratch raised {type(err2).__name__}: {err2}", {})
                return
            l2, d2, f2, dg2 = walk_view(scratch)
            if set(links) != set(l2) or dirs != d2 or {k: v for k, v in links.items()} != l2:
                viol("incremental-differs-from-scratch", "incremental update and from-scratch build differ",
                     {"incremental": sorted(links), "scratch": sorted(l2), "dirs_inc": sorted(dirs), "dirs_scratch": sorted(d2)})
                return
            import shutil

            shutil.rmtree(scratch, ignore_errors=True)
            # second call is a no-op
            ctx.monitor("second_call_readonly")
            with fsmon.Session([W], readonly=[W]) as s3:
                ret3, err3 = sig.exc_name(signac.Project(W).create_linked_view, prefix=prefix, job_ids=ids, path=path_arg(spec))
            if err3 is not None or s3.policy_hits:
                viol("second-view-call-not-a-noop", "an immediately repeated create_linked_view did something",
                     {"events": [h[1] for h in s3.policy_hits][:5], "error": repr(err3)})
                return
            if len(selected) >= 2:
                nviews += 1
    # a layout that cannot be represented - one job's link would have to be a directory on the way to another job's
    # link - is refused whatever other paths sort between the two, and an existing view stays as it is
    ranks = {jid: int(jid[:2], 16) % 4 for jid in m}
    if {0, 1} <= set(ranks.values()):
        step = len(case["ops"])
        prefix2 = os.path.join(W, "view_conflict")
        _r, e0 = sig.exc_name(signac.Project(W).create_linked_view, prefix=prefix2, path="{job.id}")
        before = model.snapshot(prefix2)
        with fsmon.Session([W], contain=[prefix2]) as s4:
            _r, e4 = sig.exc_name(signac.Project(W).create_linked_view, prefix=prefix2, path=path_arg("callable-conflict"))
        ctx.monitor("rejected_input_keeps_view")
        if e0 is None and (not isinstance(e4, RuntimeError) or model.snapshot(prefix2) != before or s4.policy_hits):
            viol("unrepresentable-layout-not-refused", "a path layout with a link that is also a directory on the way to another link was not refused cleanly",
                 {"outcome": repr(e4), "paths": sorted(("x", "x/job", "x/job-old", "x/job.1")[r] for r in ranks.values()),
                  "diff": model.snap_diff(before, model.snapshot(prefix2)), "outside": [h[1] for h in s4.policy_hits][:3]})
            return
    if nviews >= 2:
        ctx.distinct("nontrivial", case)
    if not case.get("exh"):
        ctx.sample({"uni": case["uni"], "ops": case["ops"][:8], "jobs": list(m.values())[:4]})
