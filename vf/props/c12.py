"""C12 - concurrent processes initialise jobs and write documents without corruption."""

import copy
import os
import random
import shutil

from .. import model, sched, sig

PROP = "C12"
LEVEL = "exploration"
MONITORS = ["actors_exit_clean", "reads_are_written_values", "final_check_passes", "final_ids_exact",
            "final_docs_sequential", "read_after_completed_write"]
DISTINCT = "traces"
RULE = (
    "Actor scripts drawn from {Project() / init_project(); open_job(sp).init(); job.doc[k] = v (each job document has "
    "one writer); read job.doc; len(project); list(project)} over the same / different jobs, started from {project "
    "without workspace directory, empty workspace, populated workspace}. Each actor is a real forked process that "
    "blocks before every file-system call (audited calls plus os.stat / os.lstat) until the controller releases it, "
    "so the controller picks the total order of FS calls. Two actors: stateless DFS with sleep sets (independence = "
    "both reads, or unrelated paths) up to a schedule budget; three actors: seeded random and PCT-style priority "
    "schedules. Oracles: every actor finishes without exception; every value read is one that was written (never a "
    "parse error); fresh-session check() passes; final ids = initial + requested; final documents equal the "
    "sequential outcome; a document read whose open() is ordered after the k-th completed rename of that document "
    "returns version k. Non-trivial and distinct = distinct Mazurkiewicz traces (Foata normal form hash) executed."
)
RULE += (
    " " + 'Added later: scenarios doc-assign-vs-reader (job.document = {...}) and stale-handle-lists-while-workspace-appears (a pickled Project handle).'
    " In every third case DEBUG logging is effective for the package."
)
ASSUMPTIONS = [
    "One kernel, FS calls serialised by the controller (sequentially consistent local file system); a C-level directory "
    "listing is one step.",
    "Each job document has a single writing process (the statement covers documents of different jobs).",
]
MANIFEST = {
    "engine": "controlled process scheduler",
    "technique": "runtime monitoring: real processes under a controlled scheduler at FS-call granularity (stateless DFS with sleep sets / PCT sampling); oracle over the recorded total order",
}
TIME_CAP = {"quick": 90, "thorough": 1500}

SP = [{"a": 1, "b": {"x": 2, "y": 3}}, {"a": 2}, {"a": 3}]  # SP[0] has an order to write its keys in


def EXHAUSTIVE(tier):
    return False


SCENARIOS = [
    # name, initial, scripts (list of op lists)
    ("same-job-init", "noworkspace", [[["project"], ["init", 0]], [["project"], ["init", 0]]]),
    ("same-job-init-empty", "empty", [[["project"], ["init", 0], ["len"]], [["project"], ["init", 0], ["list"]]]),
    ("diff-job-init", "noworkspace", [[["project"], ["init", 0]], [["project"], ["init", 1]]]),
    ("init-vs-list", "populated", [[["project"], ["init", 0]], [["project"], ["list"], ["len"], ["list"]]]),
    ("init-project-on-existing", "empty", [[["init_project"], ["init", 0]], [["init_project"], ["init", 1], ["list"]]]),
    ("doc-writer-reader", "populated", [[["project"], ["docset", 1, "k", 1], ["docset", 1, "k", 2]],
                                        [["project"], ["docread", 1], ["docread", 1]]]),
    ("doc-two-writers-diff-jobs", "populated", [[["project"], ["docset", 1, "k", 1], ["docread", 2]],
                                                [["project"], ["docset", 2, "k", 5], ["docread", 1]]]),
    ("init-and-doc", "empty", [[["project"], ["init", 0], ["docset", 0, "k", 1]],
                               [["project"], ["init", 0], ["docread", 0]]]),
    ("doc-assign-vs-reader", "populated", [[["project"], ["docset", 1, "k", 1], ["docassign", 1, "k", 9]],
                                           [["project"], ["docread", 1], ["docread", 1]]]),
    ("doc-first-write-vs-read", "populated", [[["project"], ["docset", 1, "k", 1]], [["project"], ["docread", 1], ["docread", 1]]]),
    # a handle made while the workspace existed (here: carried over by pickle) lists jobs while another process
    # re-creates the missing workspace
    ("stale-handle-lists-while-workspace-appears", "noworkspace",
     [[["project_pickled"], ["len"], ["list"]], [["project"], ["init", 0]]]),
    ("three-init-same", "noworkspace", [[["project"], ["init", 0]], [["project"], ["init", 0]], [["project"], ["init", 0], ["list"]]]),
    ("three-mixed", "populated", [[["project"], ["init", 0], ["docset", 0, "k", 1]], [["project"], ["docset", 1, "k", 7]],
                                  [["project"], ["docread", 1], ["len"], ["docread", 0]]]),
]


def gen_cases(ctx):
    i = 0
    for name, initial, scripts in SCENARIOS:
        parts = 4 if len(scripts) == 2 else 8
        for part in range(parts):
            if ctx.take(i):
                yield {"scenario": name, "part": part, "parts": parts}
            i += 1


def build_initial(root, initial):
    import signac

    if initial == "noproject":
        os.makedirs(root, exist_ok=True)
        return
    p = signac.init_project(root)
    if initial == "populated":
        for sp in SP[1:]:
            p.open_job(sp).init()
    if initial == "noworkspace":
        import pickle

        with open(root + ".project.pkl", "wb") as f:
            pickle.dump(signac.Project(root), f)
        shutil.rmtree(os.path.join(root, "workspace"), ignore_errors=True)


def make_script(ops, root, index=0):
    def script(side):
        import signac

        values = []
        p = None
        for i, op in enumerate(ops):
            side.op = i
            kind = op[0]
            if kind == "project":
                p = signac.Project(root)
                values.append(None)
            elif kind == "project_pickled":
                import pickle

                with open(root + ".project.pkl", "rb") as f:
                    p = pickle.load(f)
                values.append(None)
            elif kind == "init_project":
                p = signac.init_project(root)
                values.append(None)
            elif kind == "init":
                sp = copy.deepcopy(SP[op[1]])
                if index % 2:
                    # the same state point with its keys written in the opposite order (same id, other file bytes)
                    sp = {k: (dict(reversed(list(v.items()))) if isinstance(v, dict) else v)
                          for k, v in reversed(list(sp.items()))}
                p.open_job(sp).init()
                values.append(None)
            elif kind == "docset":
                p.open_job(copy.deepcopy(SP[op[1]])).document[op[2]] = op[3]
                values.append(None)
            elif kind == "docassign":
                # whole-document assignment through the owner's property: one replacement, like any other write
                p.open_job(copy.deepcopy(SP[op[1]])).document = {op[2]: op[3], "w": "whole"}
                values.append(None)
            elif kind == "docread":
                values.append(model.plain(p.open_job(copy.deepcopy(SP[op[1]])).document()))
            elif kind == "len":
                values.append(len(p))
            elif kind == "list":
                values.append(sorted(j.id for j in p))
        return values

    return script


def judge(ctx, name, initial, scripts, res):
    """Oracles over one executed schedule. Returns True if a violation was reported."""
    import signac

    root = res["root"]
    log = res["log"]
    brief = [f"{e['actor']}:{e['ev']['kind']}({','.join(e['ev']['paths'])})" for e in log][-60:]
    wit = {"scenario": name, "schedule": [e["actor"] for e in log], "tail": brief}
    if res["timeout"]:
        ctx.count("watchdog_inconclusive")
        ctx.extra.setdefault("harness_errors", []).append({"case": name, "tb": "watchdog fired: " + str(brief[-3:])})
        ctx.count("harness_errors")
        return True
    ctx.monitor("actors_exit_clean")
    for i, r in enumerate(res["results"]):
        if r is None or not r["ok"] or res["exits"][i] != 0:
            wit["actor"] = i
            wit["error"] = r["error"] if r else None
            if r and r["error"] and r["error"][0] == "HarnessError":
                raise RuntimeError(r["error"][1])
            ctx.violation("actor-fails-under-interleaving", f"process {i} raised {r['error'][0] if r and r['error'] else 'died'}", wit)
            return True
    initial_ids = {model.model_id(sp) for sp in SP[1:]} if initial == "populated" else set()
    requested = {model.model_id(SP[op[1]]) for ops in scripts for op in ops if op[0] in ("init", "docset", "docassign", "docread")}
    final_expected = initial_ids | requested
    # documents: per job the sequence of versions written by its single writer
    versions = {}  # jid -> list of docs (version 0 = {})
    for ops in scripts:
        for op in ops:
            if op[0] == "docset":
                jid = model.model_id(SP[op[1]])
                v = versions.setdefault(jid, [{}])
                d = dict(v[-1])
                d[op[2]] = op[3]
                v.append(d)
            elif op[0] == "docassign":
                jid = model.model_id(SP[op[1]])
                versions.setdefault(jid, [{}]).append({op[2]: op[3], "w": "whole"})
    # values read
    ctx.monitor("reads_are_written_values")
    for ai, (ops, r) in enumerate(zip(scripts, res["results"])):
        for oi, (op, val) in enumerate(zip(ops, r["values"])):
            if op[0] == "docread":
                jid = model.model_id(SP[op[1]])
                vs = versions.get(jid, [{}])
                if not any(model.typed_eq(val, v) for v in vs):
                    wit.update(actor=ai, op=op, value=val, written=vs)
                    ctx.violation("read-returns-value-never-written", "a document read returned something no write put there", wit)
                    return True
                # register semantics on the log
                docfile = os.path.join("workspace", jid, model.DOC_FILE)
                pos = None
                for k, e in enumerate(log):
                    if e["actor"] == ai and e["ev"]["op"] == oi and e["ev"]["kind"] == "open" and e["ev"]["paths"] == [docfile] \
                            and (e["ev"].get("detail") or "").startswith("r"):
                        pos = k
                if pos is not None:
                    done = sum(1 for e in log[:pos] if e["ev"]["kind"] == "rename" and e["ev"]["paths"][-1] == docfile)
                    ctx.monitor("read_after_completed_write")
                    if done < len(vs) and not model.typed_eq(val, vs[done]):
                        wit.update(actor=ai, op=op, value=val, expected_version=done, expected=vs[done])
                        ctx.violation("read-misses-completed-write", "a read ordered after a completed document write returned another version", wit)
                        return True
            elif op[0] == "len":
                if not (len(initial_ids) <= val <= len(final_expected)):
                    wit.update(actor=ai, op=op, value=val)
                    ctx.violation("len-out-of-range", "len(project) outside [initial, final]", wit)
                    return True
            elif op[0] == "list":
                if not (initial_ids <= set(val) <= final_expected):
                    wit.update(actor=ai, op=op, value=val)
                    ctx.violation("listing-shows-foreign-or-loses-jobs", "iteration lost an initial job or showed a foreign id", wit)
                    return True
    # final state through a fresh session
    ctx.monitor("final_check_passes")
    p = signac.Project(root)
    _, e = sig.exc_name(p.check)
    if e is not None:
        wit["error"] = repr(e)
        ctx.violation("check-fails-after-concurrent-run", "check() fails once all processes have finished", wit)
        return True
    ctx.monitor("final_ids_exact")
    ids = {j.id for j in p}
    if ids != final_expected:
        wit.update(ids=sorted(ids), expected=sorted(final_expected))
        ctx.violation("final-id-set-wrong", "the workspace does not hold exactly the requested jobs", wit)
        return True
    ctx.monitor("final_docs_sequential")
    for jid in ids:
        doc = model.plain(p.open_job(id=jid).document())
        want = versions.get(jid, [{}])[-1]
        if not model.typed_eq(doc, want):
            wit.update(job=jid, doc=doc, expected=want)
            ctx.violation("final-document-differs-from-sequential", "a final document differs from the sequential outcome", wit)
            return True
    lo = model.leftovers(root)
    if lo:
        wit["leftovers"] = lo
        ctx.violation("temporary-files-left-after-concurrent-run", "temporary files left behind", wit)
        return True
    return False


def explore(ctx, name, initial, scripts, part, parts, judge_fn, budget, seed):
    base = ctx.scratch("s")
    counter = [0]

    def root_factory():
        counter[0] += 1
        root = os.path.join(base, f"r{counter[0]}")
        build_initial(root, initial)
        return root

    fns = None

    def run_schedule(chooser):
        root = root_factory()
        fns = [make_script(ops, root, k) for k, ops in enumerate(scripts)]
        res = sched.execute(lambda: root, fns, chooser)
        return res

    n = 0
    if len(scripts) == 2 and part == 0:
        dfs = sched.DFS(max_schedules=budget)
        try:
            for res in dfs.explore(run_schedule):
                n += 1
                ctx.count("schedules_executed")
                if not res["redundant"]:
                    ctx.distinct("traces", sched.trace_signature(res["log"]))
                bad = judge_fn(ctx, name, initial, scripts, res)
                shutil.rmtree(res["root"], ignore_errors=True)
                if bad:
                    return
        except sched.Divergence as e:
            ctx.count("dfs_replay_divergence")
            ctx.extra.setdefault("divergences", []).append(str(e))
        ctx.note(f"dfs:{name}", {"executed": dfs.executed, "pruned_redundant": dfs.pruned, "complete": dfs.complete})
        ctx.count("dfs_complete" if dfs.complete else "dfs_budget_exhausted")
    else:
        rng = random.Random(f"{name}:{seed}:{part}")
        for k in range(budget):
            if k % 3 == 0:
                chooser = sched.pct_chooser(rng, len(scripts), depth=rng.randint(1, 3))
            else:
                chooser = sched.random_chooser(rng)
            res = run_schedule(chooser)
            n += 1
            ctx.count("schedules_executed")
            ctx.distinct("traces", sched.trace_signature(res["log"]))
            bad = judge_fn(ctx, name, initial, scripts, res)
            shutil.rmtree(res["root"], ignore_errors=True)
            if bad:
                return
    return n


def run_case(ctx, case):
    name, initial, scripts = next(s for s in SCENARIOS if s[0] == case["scenario"])
    budget = ctx.budget(700, 12000) if case["part"] == 0 and len(scripts) == 2 else ctx.budget(200, 2500)
    n = explore(ctx, name, initial, scripts, case["part"], case["parts"], judge, budget, ctx.seed)
    ctx.sample({"scenario": name, "actors": len(scripts), "initial": initial, "scripts": scripts, "schedules": n,
                "mode": "dfs+sleep-sets" if (case["part"] == 0 and len(scripts) == 2) else "random/pct"})


# ------------------------------------------------------------------------------------------
# reader / writer exploration used by C10

def reader_writer_exploration(ctx, case, monitor, prop):
    """One writer replaces a document / the cache; one reader reads it; the reader's steps are placed at every
    position among the writer's steps (DFS with sleep sets over two actors)."""
    import signac

    kinds = ["jobdoc-small", "jobdoc-64k", "projdoc", "cache"]
    kind = kinds[case["k"] % len(kinds)]
    old = {"a": 1, "s": "é"}
    new = {"a": 2, "b": [1, 2]}
    if kind == "jobdoc-64k":
        old = {f"k{i}": "old" + "x" * 50 for i in range(1300)}
        new = {f"k{i}": "new" + "x" * 50 for i in range(1250)}

    def build(root):
        p = signac.init_project(root)
        job = p.open_job(SP[0]).init()
        if kind.startswith("jobdoc"):
            job.document.reset(old)
        elif kind == "projdoc":
            p.document.reset(old)
        else:
            p.open_job(SP[1]).init()
            p.update_cache()
            p.open_job(SP[2]).init()

    def writer(root):
        def script(side):
            p = signac.Project(root)
            side.op = 1
            if kind.startswith("jobdoc"):
                p.open_job(copy.deepcopy(SP[0])).document.reset(new)
            elif kind == "projdoc":
                p.document.reset(new)
            else:
                p.update_cache()
            return [None]

        return script

    def reader(root):
        def script(side):
            p = signac.Project(root)
            side.op = 1
            if kind.startswith("jobdoc"):
                v = model.plain(p.open_job(copy.deepcopy(SP[0])).document())
            elif kind == "projdoc":
                v = model.plain(p.document())
            else:
                p.open_job({"probe": 1})  # reads the persistent cache
                v = {k: p._sp_cache[k] for k in sorted(p._sp_cache)}
            return [v]

        return script

    base = ctx.scratch("rw")
    counter = [0]

    def run_schedule(chooser):
        counter[0] += 1
        root = os.path.join(base, f"r{counter[0]}")
        build(root)
        return sched.execute(lambda: root, [writer(root), reader(root)], chooser)

    if kind == "cache":
        ids = [model.model_id(sp) for sp in SP]
        old_v = {ids[0]: SP[0], ids[1]: SP[1]}
        new_v = {ids[0]: SP[0], ids[1]: SP[1], ids[2]: SP[2]}
        target = model.CACHE_FILE
    else:
        old_v, new_v = old, new
        target = os.path.join("workspace", model.model_id(SP[0]), model.DOC_FILE) if kind.startswith("jobdoc") else model.PDOC_FILE
    dfs = sched.DFS(max_schedules=ctx.budget(120, 1200))
    try:
        for res in dfs.explore(run_schedule):
            ctx.count("schedules_executed")
            ctx.monitor(monitor)
            log = res["log"]
            wit = {"kind": kind, "schedule": [e["actor"] for e in log],
                   "tail": [f"{e['actor']}:{e['ev']['kind']}({','.join(e['ev']['paths'])})" for e in log][-30:]}
            if res["timeout"]:
                ctx.count("harness_errors")
                ctx.extra.setdefault("harness_errors", []).append({"case": kind, "tb": "watchdog"})
                return
            r = res["results"][1]
            if not res["results"][0]["ok"]:
                raise RuntimeError(res["results"][0]["error"])
            if not r["ok"]:
                wit["error"] = r["error"][:2]
                ctx.violation("reader-fails-during-write", "a reader scheduled between the writer's steps raised", wit)
                return
            val = r["values"][0]
            pos = None
            for k, e in enumerate(log):
                if e["actor"] == 1 and e["ev"]["kind"] == "open" and e["ev"]["paths"] == [target] and (e["ev"].get("detail") or "").startswith("r"):
                    pos = k
            renamed = pos is not None and any(e["actor"] == 0 and e["ev"]["kind"] == "rename" and e["ev"]["paths"][-1] == target for e in log[:pos])
            want = new_v if renamed else old_v
            if kind == "cache":
                # the reader merges the file into its in-memory cache: it must at least hold the file's entries
                ok = all(model.typed_eq(val.get(k), v) for k, v in want.items()) and set(val) <= set(new_v)
            else:
                ok = model.typed_eq(val, want)
            if not ok:
                wit.update(expected="new" if renamed else "old", got_keys=sorted(val)[:6] if isinstance(val, dict) else repr(val)[:80])
                ctx.violation("reader-sees-torn-or-stale-content", "a reader saw neither the version current at its open()", wit)
                return
            if not res["redundant"]:
                ctx.distinct("nontrivial", ["reader", kind, sched.trace_signature(log)])
            shutil.rmtree(res["root"], ignore_errors=True)
    except sched.Divergence as e:
        ctx.count("dfs_replay_divergence")
    ctx.note(f"dfs-reader:{kind}", {"executed": dfs.executed, "pruned_redundant": dfs.pruned, "complete": dfs.complete})
    ctx.sample({"reader_writer": kind, "schedules": dfs.executed, "complete": dfs.complete})
