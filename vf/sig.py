"""Small helpers around the signac API used by all property modules."""

import hashlib
import json
import os

from . import model


def new_project(ctx, tag="p"):
    import signac

    d = ctx.scratch(tag)
    return signac.init_project(d)


def fresh(project_or_path):
    """A new Project object for the same directory (no in-memory state shared)."""
    import signac

    path = project_or_path if isinstance(project_or_path, str) else project_or_path.path
    return signac.Project(path)


def api_view(project_path, with_files=True):
    """What a fresh session sees through the public API:
    {id: {'sp': plain, 'doc': plain, 'files': snapshot}} (errors are recorded as ('ERR', type))."""
    p = fresh(project_path)
    out = {}
    for job in p:
        e = {}
        try:
            e["sp"] = model.plain(job.statepoint())
        except Exception as ex:  # noqa
            e["sp"] = ("ERR", type(ex).__name__)
        try:
            e["doc"] = model.plain(job.document())
        except Exception as ex:  # noqa
            e["doc"] = ("ERR", type(ex).__name__)
        if with_files:
            snap = model.snapshot(job.path)
            e["files"] = {k: v for k, v in snap.items() if k not in (model.SP_FILE, model.DOC_FILE)}
        out[job.id] = e
    return out


def exc_name(fn, *a, **kw):
    """(result, None) or (None, exception)"""
    try:
        return fn(*a, **kw), None
    except Exception as e:  # noqa
        return None, e


def write_file(path, data):
    os.makedirs(os.path.dirname(path), exist_ok=True)
    with open(path, "wb") as f:
        f.write(data if isinstance(data, bytes) else data.encode())


def ids_with_shared_prefix(nchars, count=2, limit=200000, key="a"):
    """Search {key: i} state points for `count` ids sharing `nchars` leading hex digits."""
    seen = {}
    for i in range(limit):
        sp = {key: i}
        h = model.model_id(sp)
        bucket = seen.setdefault(h[:nchars], [])
        bucket.append(sp)
        if len(bucket) >= count:
            return bucket
    return None
