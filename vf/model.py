"""Reference models written from the property statements, independent of signac's code."""

import hashlib
import json
import os
from collections.abc import Mapping

SP_FILE = "signac_statepoint.json"
DOC_FILE = "signac_job_document.json"
PDOC_FILE = "signac_project_document.json"
CACHE_FILE = os.path.join(".signac", "statepoint_cache.json.gz")
HEX = set("0123456789abcdef")


def plain(x):
    """Plain dict/list/scalar data (Mapping -> dict, list/tuple -> list)."""
    if isinstance(x, Mapping):
        return {k: plain(v) for k, v in x.items()}
    if isinstance(x, (list, tuple)):
        return [plain(v) for v in x]
    if hasattr(x, "_data") and hasattr(x, "__call__") and not isinstance(x, type):
        try:
            return plain(x())
        except Exception:
            pass
    return x


def canon_text(sp):
    """Canonical JSON text: keys sorted at every level, standard separators, ASCII-escaped."""
    return json.dumps(
        plain(sp), sort_keys=True, ensure_ascii=True, separators=(", ", ": "), allow_nan=False
    )


def model_id(sp):
    return hashlib.md5(canon_text(sp).encode("ascii")).hexdigest()


def is_id(name):
    return len(name) == 32 and set(name) <= HEX


def tkey(x):
    """Hashable, type-exact key of a JSON value (1, 1.0, True, '1' all differ; list == tuple)."""
    if isinstance(x, Mapping):
        return ("M", tuple(sorted((k, tkey(v)) for k, v in x.items())))
    if isinstance(x, (list, tuple)):
        return ("L", tuple(tkey(v) for v in x))
    if x is None:
        return ("N",)
    if isinstance(x, bool):
        return ("B", x)
    if isinstance(x, int):
        return ("I", x)
    if isinstance(x, float):
        return ("F", repr(x))
    if isinstance(x, str):
        return ("S", x)
    if hasattr(x, "__call__") and hasattr(x, "_data"):
        return tkey(x())
    return ("?", type(x).__name__, repr(x))


def typed_eq(a, b):
    return tkey(a) == tkey(b)


def read_json(path):
    with open(path, "rb") as f:
        return json.loads(f.read().decode("utf-8"))


def snapshot(root, with_mtime=False):
    """{relpath: ('d',) | ('f', bytes[, mtime_ns]) | ('l', target)} of a tree; {} if absent."""
    out = {}
    if not os.path.lexists(root):
        return out
    if os.path.islink(root) or not os.path.isdir(root):
        st = os.lstat(root)
        if os.path.islink(root):
            out["."] = ("l", os.readlink(root))
        else:
            with open(root, "rb") as f:
                out["."] = ("f", f.read())
        return out
    for dirpath, dirnames, filenames in os.walk(root, followlinks=False):
        rel = os.path.relpath(dirpath, root)
        for d in list(dirnames):
            p = os.path.join(dirpath, d)
            r = os.path.normpath(os.path.join(rel, d))
            if os.path.islink(p):
                out[r] = ("l", os.readlink(p))
            else:
                out[r] = ("d",)
        for fn in filenames:
            p = os.path.join(dirpath, fn)
            r = os.path.normpath(os.path.join(rel, fn))
            if os.path.islink(p):
                out[r] = ("l", os.readlink(p))
            else:
                with open(p, "rb") as f:
                    data = f.read()
                if with_mtime:
                    out[r] = ("f", data, os.stat(p).st_mtime_ns)
                else:
                    out[r] = ("f", data)
    return out


def snap_diff(a, b, limit=8):
    """Human-readable difference between two snapshots."""
    out = []
    for k in sorted(set(a) | set(b)):
        if k not in a:
            out.append(f"+{k} {_short(b[k])}")
        elif k not in b:
            out.append(f"-{k} {_short(a[k])}")
        elif a[k] != b[k]:
            out.append(f"~{k} {_short(a[k])} -> {_short(b[k])}")
        if len(out) >= limit:
            break
    return out


def _short(e):
    if e[0] == "f":
        d = e[1]
        return "f:" + (d[:60].decode("utf-8", "replace") + ("..." if len(d) > 60 else ""))
    return ":".join(str(x) for x in e)


def raw_jobs(project_path):
    """Independent reading of a workspace: {dirname: {'sp':..., 'doc':..., 'files': {...}}}
    for every 32-hex-named directory. sp is None / ('ERR', ..) if unreadable."""
    ws = os.path.join(project_path, "workspace")
    out = {}
    if not os.path.isdir(ws):
        return out
    for name in sorted(os.listdir(ws)):
        p = os.path.join(ws, name)
        if not is_id(name) or not os.path.isdir(p):
            continue
        entry = {"sp": None, "doc": {}, "files": {}}
        try:
            entry["sp"] = read_json(os.path.join(p, SP_FILE))
        except FileNotFoundError:
            entry["sp"] = ("MISSING",)
        except Exception as e:  # noqa
            entry["sp"] = ("ERR", type(e).__name__)
        try:
            entry["doc"] = read_json(os.path.join(p, DOC_FILE))
        except FileNotFoundError:
            entry["doc"] = {}
        except Exception as e:  # noqa
            entry["doc"] = ("ERR", type(e).__name__)
        snap = snapshot(p)
        entry["files"] = {
            k: v for k, v in snap.items() if k not in (SP_FILE, DOC_FILE)
        }
        out[name] = entry
    return out


# payload names the harness itself creates although they look like backups (ordinary data as far as signac goes)
USER_TILDE_NAMES = {"notes.txt~", "arch~", "h.dat~"}


def leftovers(root):
    """Temporary / backup files anywhere below root ('*~', '._*')."""
    bad = []
    for dirpath, dirnames, filenames in os.walk(root):
        for fn in filenames + dirnames:
            if fn in USER_TILDE_NAMES:
                continue
            if fn.endswith("~") or fn.startswith("._"):
                bad.append(os.path.relpath(os.path.join(dirpath, fn), root))
    return sorted(bad)


def flatten(d, prefix=""):
    """Leaf dotted keys of a nested mapping -> value (lists are leaves; empty mapping is a leaf)."""
    out = {}
    for k, v in d.items():
        kk = prefix + k
        if isinstance(v, Mapping) and v:
            out.update(flatten(v, kk + "."))
        else:
            out[kk] = v
    return out


def to_tuple(v):
    if isinstance(v, list):
        return tuple(to_tuple(x) for x in v)
    return v
