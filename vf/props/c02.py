"""C02 - initialised jobs persist and reopen exactly; opening is lazy."""

import copy
import json
import os
import subprocess
import sys

from .. import fsmon, gen, model, sig

PROP = "C02"
LEVEL = "exploration"
MONITORS = ["init_restores_missing_file", "lazy_open_readonly", "alias", "init_layout", "reinit_readonly", "fresh_lookup", "prefix", "unknown_id"]
RULE = (
    "Single-job cases: every state point of a typed universe (C01 alphabet, depth<=3, random deep) is opened "
    "under the FS monitor (no mutating event allowed), the caller's mapping is mutated afterwards, the job is "
    "initialised, re-initialised (no mutating event allowed) and looked up from a fresh Project. Set cases: "
    "1..64 jobs chosen by a pre-search so that ids share 1..5 leading hex digits, a random order of "
    "open/init/re-init/fresh-session steps, then every prefix length 1..32 of every id, unknown ids and "
    "truncated/extended hex strings are resolved in a fresh Project (a real new process for a sample) and "
    "compared with the model (unique->job, ambiguous->LookupError, none->KeyError). Non-trivial and distinct "
    "= distinct (state point text | id-set, op order) cases in which at least one init and one fresh lookup ran."
)
RULE += (
    " " + "Added later: project handles made from a relative path followed by chdir; a deleted working directory; a workspace directory whose mtime lies behind the cache file's; init() again on the creating handle after the state point file went missing; the by-id answer of a new session after its caller changed the mapping."
    " In every third case DEBUG logging is effective for the package."
)
ASSUMPTIONS = [
    "Unknown ids are well-formed lowercase hex strings (lengths 1..32) not matching any job; path-like strings are not generated.",
    "A 'new session' is a new Project object; a sample of cases uses a real new interpreter process.",
]
MANIFEST = {"technique": 'runtime monitoring: FS-call monitor (audit hook, P-readonly) + reference model of id / prefix resolution in fresh sessions', "engine": 'fs-call monitor (audit hook)'}
TIME_CAP = {"quick": 60, "thorough": 900}


def gen_cases(ctx):
    i = 0
    rng = ctx.grng("cases")
    # single-job cases over the typed universe
    vals = list(gen.enum_values(2))
    singles = [{"a": v} for v in vals]
    singles += [{"a": v, "b": w} for v in gen.SMALL_ATOMS for w in gen.SMALL_ATOMS]
    singles += [{}, {"k é": {"": [1, 1.0, True, "1", None]}}]
    singles += [{"species": [{"n": 10}, {"n": 20}]}, {"a": [[1, 2], {"b": [3]}]}, {"a": {"b": [{"c": [1]}]}}] * 40
    rng.shuffle(singles)
    singles = singles[: ctx.budget(6000, 60000)]
    singles += [gen.rand_sp(rng, depth=rng.randint(1, 5)) for _ in range(ctx.budget(3000, 40000))]
    for sp in singles:
        if ctx.take(i):
            yield {"kind": "single", "sp": sp, "cache": rng.random() < 0.3, "byid_first": rng.random() < 0.5}
        else:
            rng.random(); rng.random()
        i += 1
    # colliding id sets
    pools = {}
    for n in (1, 2, 3, 4, 5):
        pools[n] = sig.ids_with_shared_prefix(n, count=3 if n <= 3 else 2)
    nset = ctx.budget(2500, 40000)
    for _ in range(nset):
        size = rng.choice([1, 2, 3, 3, 5, 8, 16, 33, 64])
        sps = []
        for n in rng.sample([1, 2, 3, 4, 5], rng.randint(1, 3)):
            sps.extend(pools[n])
        while len(sps) < size:
            sps.append(rng.choice([{"a": rng.randint(0, 5000)}, {"b": rng.randint(0, 50), "a": rng.choice([1, 1.0, "1", True])}]))
        # dedupe by model id
        uniq = {}
        for sp in sps:
            uniq.setdefault(model.model_id(sp), sp)
        sps = list(uniq.values())[:size] if size < len(uniq) else list(uniq.values())
        ops = []
        for _k in range(rng.randint(len(sps), 3 * len(sps) + 2)):
            j = rng.randrange(len(sps))
            ops.append([rng.choice(["open", "init", "init", "reinit", "fresh_init", "byid_init"]), j])
        case = {
            "kind": "set", "sps": sps, "ops": ops, "cache": rng.random() < 0.4,
            "proc": rng.random() < 0.04,
        }
        if ctx.take(i):
            yield case
        i += 1


def _tuple_spelling(x):
    """The same JSON value with every array spelt as a tuple (mutable elements stay mutable)."""
    if isinstance(x, dict):
        return {k: _tuple_spelling(v) for k, v in x.items()}
    if isinstance(x, list):
        return tuple(_tuple_spelling(v) for v in x)
    return x


def _mutate_nested(x, rng_token=0):
    """Mutate a nested mapping/list in place as hostile caller code would."""
    if isinstance(x, tuple):
        for v in x:
            if isinstance(v, (dict, list, tuple)):
                _mutate_nested(v)
        return
    if isinstance(x, dict):
        for k in list(x):
            if isinstance(x[k], (dict, list, tuple)):
                _mutate_nested(x[k])
            else:
                x[k] = "MUTATED"
        x["__extra__"] = 1
    elif isinstance(x, list):
        for n, v in enumerate(x):
            if isinstance(v, (dict, list, tuple)):
                _mutate_nested(v)
            else:
                x[n] = "MUTATED"
        x.append("MUTATED")


def run_single(ctx, case):
    import signac

    sp = case["sp"]
    try:
        expected = model.model_id(sp)
    except ValueError:
        return
    project = sig.new_project(ctx)
    root = project.path
    if len(expected) and int(expected[:2], 16) % 3 == 0:
        # the handle is made from a relative path and the process then works from another directory (as inside
        # `with job:`); everything below must still happen in the project
        os.chdir(os.path.dirname(root))
        project = signac.Project(os.path.basename(root))
        os.chdir(os.path.join(root, "workspace"))
        ctx.count("relative_project_handle_then_chdir")
    elif len(expected) and int(expected[:2], 16) % 3 == 1:
        # the process's working directory has been deleted under it (as inside `with job:` after job.remove())
        import tempfile

        gone = tempfile.mkdtemp(dir=os.path.dirname(root))
        os.chdir(gone)
        os.rmdir(gone)
        ctx.count("working_directory_deleted")
    arg = copy.deepcopy(sp)
    if case.get("byid_first"):
        arg = _tuple_spelling(arg)  # arrays as tuples: their mutable elements are still the caller's objects
    # 1. lazy open: nothing may be written
    before = model.snapshot(root)
    with fsmon.Session([root], readonly=[root]) as s:
        job = project.open_job(arg)
        _ = job.id, job.path, job.statepoint(), dict(job.cached_statepoint), (job in project), str(job), repr(job)
    ctx.monitor("lazy_open_readonly")
    after = model.snapshot(root)
    if s.policy_hits or before != after:
        ctx.violation(
            "open_job-writes", "open_job / reading a handle mutated the disk",
            {"sp": sp, "events": s.briefs(root, only_mut=True), "diff": model.snap_diff(before, after)},
        )
    # 2. aliasing
    _mutate_nested(arg)
    ctx.monitor("alias")
    if job.id != expected or not model.typed_eq(job.statepoint(), sp) or not model.typed_eq(dict(job.cached_statepoint), sp):
        ctx.violation(
            "handle-aliases-caller-mapping", "mutating the caller's mapping after open_job changed the handle",
            {"sp": sp, "id": job.id, "expected": expected, "statepoint": model.plain(job.statepoint())},
        )
    # 3. init layout
    if case.get("cache"):
        project.update_cache()
    try:
        job.init()
    except Exception as e:  # noqa
        ctx.violation("init-raises", f"init() of a valid state point raised {type(e).__name__}: {e}", {"sp": sp})
        return
    ctx.monitor("init_layout")
    jd = os.path.join(os.path.join(root, "workspace"), expected)
    names = sorted(os.listdir(os.path.join(root, "workspace")))
    if names != [expected]:
        ctx.violation("init-wrong-directory", "workspace does not hold exactly the directory named by the id",
                      {"sp": sp, "listing": names, "expected": expected})
        return
    try:
        on_disk = model.read_json(os.path.join(jd, model.SP_FILE))
    except Exception as e:
        ctx.violation("init-no-statepoint-file", f"state point file unreadable: {e!r}", {"sp": sp})
        return
    if not model.typed_eq(on_disk, sp):
        ctx.violation("statepoint-file-differs", "state point file does not parse to exactly sp",
                      {"sp": sp, "on_disk": on_disk})
    if sorted(os.listdir(jd)) != [model.SP_FILE]:
        ctx.violation("init-extra-files", "init() left extra files", {"listing": sorted(os.listdir(jd))})
    # 4. idempotent, never rewrites
    before = model.snapshot(root, with_mtime=True)
    with fsmon.Session([root], readonly=[os.path.join(root, "workspace")]) as s:
        job.init()
        project.open_job(copy.deepcopy(sp)).init()
        sig.fresh(root).open_job(copy.deepcopy(sp)).init()
        sig.fresh(root).open_job(id=expected).init()
    ctx.monitor("reinit_readonly")
    after = model.snapshot(root, with_mtime=True)
    if s.policy_hits or before != after:
        ctx.violation(
            "reinit-rewrites", "a repeated init() of a valid job mutated the workspace",
            {"sp": sp, "events": s.briefs(root, only_mut=True), "diff": model.snap_diff(before, after)},
        )
    # 4b. init() is what (re)creates a missing state point file - also the second time, on a handle that has seen it
    if int(expected[4:6], 16) % 4 == 0:
        ctx.monitor("init_restores_missing_file")
        fn_sp = os.path.join(jd, model.SP_FILE)
        os.remove(fn_sp)
        try:
            job.init()
            back = model.read_json(fn_sp)
        except Exception as e:  # noqa
            back = repr(e)
        if not model.typed_eq(back, sp):
            ctx.violation("init-does-not-restore-statepoint-file",
                          "after the state point file went missing, init() on the handle that created the job did not leave a file parsing to sp",
                          {"sp": sp, "now": back})
            return
    # 5. fresh session lookup
    if case.get("cache") and case.get("byid_first"):
        sig.fresh(root).update_cache()
    fn_cache = os.path.join(root, model.CACHE_FILE)
    if os.path.exists(fn_cache) and int(expected[2:4], 16) % 2 == 0:
        # time stamps as a restore from backup or an out-of-step clock leaves them: the workspace directory looks
        # older than the cache file although it has changed since
        t = os.stat(fn_cache).st_mtime - 3600
        os.utime(os.path.join(root, "workspace"), (t, t))
        ctx.count("workspace_mtime_set_older_than_cache_file")
    p2 = sig.fresh(root)
    ctx.monitor("fresh_lookup")
    problems = []
    if case.get("byid_first"):
        order = ["byid", "iter"]
    else:
        order = ["iter", "byid"]
    for how in order:
        if how == "iter":
            jobs = list(p2)
            if [j.id for j in jobs] != [expected] or len(p2) != 1:
                problems.append(("iteration", [j.id for j in jobs], len(p2)))
            else:
                j2 = jobs[0]
                if not model.typed_eq(j2.statepoint(), sp) or not model.typed_eq(dict(j2.cached_statepoint), sp):
                    problems.append(("iter-statepoint", model.plain(j2.statepoint())))
                if j2 not in p2:
                    problems.append(("membership",))
        else:
            j3, e = sig.exc_name(p2.open_job, id=expected)
            if e is not None:
                problems.append(("open-by-id-raises", repr(e)))
            else:
                if not model.typed_eq(dict(j3.cached_statepoint), sp) or not model.typed_eq(j3.statepoint(), sp):
                    problems.append(("byid-statepoint", model.plain(j3.statepoint())))
                if j3.id != expected:
                    problems.append(("byid-id", j3.id))
    j4 = p2.open_job(copy.deepcopy(sp))
    if j4 not in p2 or j4.id != expected:
        problems.append(("by-statepoint", j4.id))
    # a new session opens the (initialised) job by state point, the caller then reuses its mapping for something
    # else: what that session answers for the id afterwards is still sp
    p5 = sig.fresh(root)
    arg5 = _tuple_spelling(copy.deepcopy(sp)) if case.get("byid_first") else copy.deepcopy(sp)
    p5.open_job(arg5)
    _mutate_nested(arg5)
    ctx.monitor("alias")
    j5, e5 = sig.exc_name(p5.open_job, id=expected)
    if e5 is not None or not model.typed_eq(j5.statepoint(), sp) or not model.typed_eq(dict(j5.cached_statepoint), sp):
        problems.append(("byid-after-caller-mutation", repr(e5) if e5 is not None else model.plain(j5.statepoint())))
    if problems:
        key = "fresh-session-lookup-differs"
        if [p[0] for p in problems] == ["byid-after-caller-mutation"]:
            key = "handle-aliases-caller-mapping"
        ctx.violation(key, "a fresh Project does not find the job exactly",
                      {"sp": sp, "problems": problems})
    ctx.distinct("nontrivial", model.canon_text(sp))
    ctx.sample({"single": sp, "id": expected})


def observe(path, queries):
    """Resolve id queries in a fresh Project. Returns list of [outcome, id-or-None, sp-or-None]."""
    import signac

    p = signac.Project(path)
    out = []
    listing = sorted(j.id for j in p)
    for q in queries:
        try:
            j = p.open_job(id=q)
            spv = model.plain(j.statepoint())
            out.append(["job", j.id, spv, j in p])
        except KeyError:
            out.append(["KeyError", None, None, None])
        except LookupError:
            out.append(["LookupError", None, None, None])
        except Exception as e:  # noqa
            out.append([type(e).__name__, None, None, None])
    return {"listing": listing, "len": len(p), "results": out}


def run_set(ctx, case):
    import signac

    sps = case["sps"]
    ids = [model.model_id(sp) for sp in sps]
    project = sig.new_project(ctx)
    root = project.path
    inited = set()
    handles = {}
    for op, j in case["ops"]:
        sp, jid = sps[j], ids[j]
        if op == "open":
            with fsmon.Session([root], readonly=[root]) as s:
                handles[j] = project.open_job(copy.deepcopy(sp))
            ctx.monitor("lazy_open_readonly")
            if s.policy_hits:
                ctx.violation("open_job-writes", "open_job mutated the disk", {"events": s.briefs(root, True)})
        elif op == "init":
            h = handles.get(j) or project.open_job(copy.deepcopy(sp))
            handles[j] = h
            h.init()
            inited.add(jid)
        elif op == "reinit":
            if jid in inited:
                h = handles.get(j) or project.open_job(copy.deepcopy(sp))
                handles[j] = h
                with fsmon.Session([root], readonly=[project.workspace]) as s:
                    h.init()
                ctx.monitor("reinit_readonly")
                if s.policy_hits:
                    ctx.violation("reinit-rewrites", "repeated init() mutated the workspace",
                                  {"events": s.briefs(root, True)})
        elif op == "fresh_init":
            sig.fresh(root).open_job(copy.deepcopy(sp)).init()
            inited.add(jid)
        elif op == "byid_init":
            if jid in inited:
                with fsmon.Session([root], readonly=[project.workspace]) as s:
                    sig.fresh(root).open_job(id=jid).init()
                if s.policy_hits:
                    ctx.violation("reinit-rewrites", "init() of a job opened by id mutated the workspace",
                                  {"events": s.briefs(root, True)})
    if case.get("cache"):
        sig.fresh(root).update_cache()
    if not inited:
        return
    sp_by_id = dict(zip(ids, sps))
    rng = ctx.rng("q" + ids[0])
    queries = []
    for jid in sorted(inited):
        for n in range(1, 33):
            queries.append(jid[:n])
    # unknown: flip the last matching char of prefixes; random hex of all lengths
    for jid in sorted(inited):
        for n in (1, 2, 5, 16, 31, 32):
            c = "0" if jid[n - 1] != "0" else "1"
            queries.append(jid[: n - 1] + c)
    for n in (1, 2, 3, 8, 31, 32):
        queries.append("".join(rng.choice("0123456789abcdef") for _ in range(n)))
    queries = list(dict.fromkeys(queries))
    # resolution must not depend on what the session has cached so far: shuffle, then ask every
    # ambiguous or unknown prefix once more at the end, when most state points have been loaded
    rng.shuffle(queries)
    again = [q for q in queries if len(q) < 32 and len([i for i in inited if i.startswith(q)]) != 1]
    queries = queries + again
    if case.get("proc"):
        code = "import sys, json\nfrom vf.props.c02 import observe\nprint(json.dumps(observe(sys.argv[1], json.load(sys.stdin))))\n"
        r = subprocess.run([sys.executable, "-B", "-c", code, root], input=json.dumps(queries),
                           capture_output=True, text=True, timeout=300)
        if r.returncode != 0:
            raise RuntimeError(r.stderr[-2000:])
        obs = json.loads(r.stdout)
        ctx.count("observed_in_new_process")
    else:
        obs = observe(root, queries)
    ctx.monitor("fresh_lookup")
    if obs["listing"] != sorted(inited) or obs["len"] != len(inited):
        ctx.violation("fresh-session-lookup-differs", "fresh Project lists a different id set",
                      {"listing": obs["listing"], "expected": sorted(inited), "len": obs["len"]})
    nontrivial_prefix = 0
    for q, (outcome, rid, rsp, member) in zip(queries, obs["results"]):
        matches = [i for i in inited if i.startswith(q)]
        if len(q) == 32:
            exp = "job" if q in inited else "KeyError"
        elif len(matches) == 1:
            exp = "job"
        elif len(matches) > 1:
            exp = "LookupError"
        else:
            exp = "KeyError"
        if exp == "KeyError":
            ctx.monitor("unknown_id")
        else:
            ctx.monitor("prefix")
        if exp == "LookupError":
            nontrivial_prefix += 1
        bad = None
        if outcome != exp:
            bad = f"query '{q}' gave {outcome}, expected {exp}"
        elif exp == "job":
            want = matches[0] if len(q) < 32 else q
            if rid != want or not model.typed_eq(rsp, sp_by_id[want]) or member is not True:
                bad = f"query '{q}' resolved to {rid} with state point {rsp!r}"
        if bad:
            key = {
                ("job", "LookupError"): "unique-prefix-reported-ambiguous",
                ("job", "KeyError"): "existing-id-not-found",
                ("LookupError", "job"): "ambiguous-prefix-resolved",
                ("LookupError", "KeyError"): "ambiguous-prefix-keyerror",
                ("KeyError", "job"): "unknown-id-resolved",
                ("KeyError", "LookupError"): "unknown-id-lookuperror",
            }.get((exp, outcome), "prefix-resolution-wrong")
            ctx.violation(key, bad, {"query": q, "ids": sorted(inited), "proc": bool(case.get("proc"))})
    ctx.count("ambiguous_prefix_queries", nontrivial_prefix)
    ctx.distinct("nontrivial", [sorted(inited), case["ops"]])
    ctx.sample({"set_ids": sorted(inited)[:4], "n": len(inited), "ops": case["ops"][:6], "ambiguous_queries": nontrivial_prefix})


def run_case(ctx, case):
    cwd0 = os.getcwd()
    try:
        if case["kind"] == "single":
            run_single(ctx, case)
        else:
            run_set(ctx, case)
    finally:
        os.chdir(cwd0)
