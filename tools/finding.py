#!/venv/bin/python
"""Maintain known_findings.json (never used at check run time).

  tools/finding.py open  C15 <key> "<what fails>"
  tools/finding.py fixed C06 <key> <commit> "<what failed>"
"""
import json
import os
import sys

HERE = os.path.dirname(os.path.dirname(os.path.abspath(__file__)))
FN = os.path.join(HERE, "known_findings.json")
data = json.load(open(FN))
mode, prop, key = sys.argv[1:4]
data["findings"] = [f for f in data["findings"] if not (f["property"] == prop and f["key"] == key)]
if mode == "open":
    what = sys.argv[4]
    data["findings"].append({"property": prop, "key": key, "status": "open", "what": what})
elif mode == "fixed":
    commit, what = sys.argv[4:6]
    data["findings"].append(
        {
            "property": prop, "key": key, "status": "fixed", "commit": commit, "what": what,
            "line": f"fixed: property={prop} {commit} {what}",
        }
    )
elif mode == "drop":
    pass
data["findings"].sort(key=lambda f: (f["property"], f["key"]))
json.dump(data, open(FN, "w"), indent=1)
print(len(data["findings"]), "findings")
