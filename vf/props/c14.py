"""C14 - sync never overwrites conflicts unless told to; failed syncs roll documents back."""

import copy
import json
import os

from .. import model, sig, syncgen
from .c13 import doc_of, flat_doc, job_files

PROP = "C14"
LEVEL = "exploration"
MONITORS = ["doc_rollback_dry_run", "file_overwritten_iff_verdict", "strategy_only_for_differing", "no_strategy_raises", "key_overwritten_iff_selected",
            "key_strategy_full_path", "doc_rollback"]
RULE = (
    "Conflicting pairs from the C13 universe (files differing in content with equal/different size and older/equal/"
    "newer mtime, top level and nested; documents with flat, nested (depth 3), mixed-type and partially overlapping "
    "conflicts; project documents) x file strategies (None, always, never, update, custom predicate) wrapped in a "
    "recording proxy x document strategies (default, ByKey(predicate), ByKey(regex), update, NO_SYNC) x recursive x "
    "exclude x job-level (Job.sync) and project-level (Project.sync / sync_projects) entry points. Oracles: file "
    "overwritten <=> logged verdict True; strategy consulted only for files whose content differs; None => "
    "FileSyncConflict naming a differing file that stays untouched; key overwritten <=> key strategy selects its "
    "full dotted path; after DocumentSyncConflict every conflicting destination document equals its pre-sync "
    "content and no backup file remains. Non-trivial and distinct = distinct cases with at least one file or key conflict."
)
RULE += (
    " " + 'Added later: every call that raised DocumentSyncConflict is repeated as a dry run on a rebuilt destination; sub-second mtime differences within one second.'
    " In every third case DEBUG logging is effective for the package."
)
ASSUMPTIONS = [
    "For files with different content but equal size and mtime under the default shallow comparison only the safe "
    "direction is asserted (never overwritten without a true verdict).",
    "A document key conflicts when the source holds a non-mapping value (or a mapping where the destination holds a "
    "non-mapping) at a dotted path at which the destination holds a different value.",
]
MANIFEST = {"technique": 'runtime monitoring: recording strategy wrappers + reference merge model on byte snapshots', "engine": 'reference-model monitor'}
TIME_CAP = {"quick": 70, "thorough": 1500}


def gen_cases(ctx):
    rng = ctx.grng("c14")
    n = ctx.budget(30000, 300000)
    for i in range(n):
        src, dst = syncgen.rand_side(rng), syncgen.rand_side(rng)
        # force overlap so that conflicts are frequent
        for k in list(src["jobs"])[:2]:
            dst["jobs"].setdefault(k, {"files": syncgen.rand_files(rng), "doc": syncgen.rand_doc(rng)})
        syncgen.correlate(rng, src, dst)
        opts = syncgen.rand_options(rng, src)
        if opts["doc_sync"] == "COPY":
            opts["doc_sync"] = None
        opts["selection"] = None
        opts["check_schema"] = False
        level = rng.choice(["project", "project", "job"])
        entry = rng.choice(["Project.sync", "sync_projects"])
        if ctx.take(i):
            yield {"src": src, "dst": dst, "opts": opts, "level": level, "entry": entry}


def doc_conflicts(sdoc, ddoc, prefix=""):
    """(conflicts, additions, shape_clash): dotted paths where src holds a leaf the dst holds differently."""
    conflicts, shape = [], []
    for k, v in sdoc.items():
        path = prefix + k
        if k not in ddoc:
            continue
        dv = ddoc[k]
        if dv == v:
            continue
        if isinstance(v, dict):
            if isinstance(dv, dict):
                c, s = doc_conflicts(v, dv, path + ".")
                conflicts += c
                shape += s
            else:
                shape.append(path)
                conflicts.append(path)
        else:
            conflicts.append(path)
    return conflicts, shape


def get_path(d, path):
    for n in path.split("."):
        if not isinstance(d, dict) or n not in d:
            return ("ABSENT",)
        d = d[n]
    return d


def expected_doc(sdoc, ddoc, select, prefix=""):
    """Model of ByKey merge: returns new destination doc."""
    out = copy.deepcopy(ddoc)
    for k, v in sdoc.items():
        path = prefix + k
        if k not in out:
            out[k] = copy.deepcopy(v)
        elif out[k] == v:
            continue
        elif isinstance(v, dict) and isinstance(out[k], dict):
            out[k] = expected_doc(v, out[k], select, path + ".")
        elif select(path):
            out[k] = copy.deepcopy(v)
    return out


def run_case(ctx, case):
    import signac
    from signac.errors import DocumentSyncConflict, FileSyncConflict

    src_spec, dst_spec, opts = case["src"], case["dst"], case["opts"]
    S = syncgen.build(ctx, src_spec, "s")
    D = syncgen.build(ctx, dst_spec, "d")
    s_snap = model.snapshot(S.path, with_mtime=True)
    d_before = model.snapshot(D.path, with_mtime=True)
    flog, dlog = [], []
    common = sorted(set(src_spec["jobs"]) & set(dst_spec["jobs"]))
    if case["level"] == "job":
        if not common:
            return
        key = common[0]
        sj = S.open_job(syncgen.sp_of(key))
        dj = D.open_job(syncgen.sp_of(key))
        try:
            dj.sync(sj, strategy=syncgen.file_strategy(opts["strategy"], flog), exclude=copy.deepcopy(opts["exclude"]),
                    doc_sync=syncgen.doc_strategy(opts, dlog), recursive=opts["recursive"])
            err = None
        except Exception as e:  # noqa
            err = e
        synced = [key]
        project_doc_synced = False
    else:
        err = syncgen.call_sync(D, S, opts, flog, dlog, entry=case["entry"])
        synced = common
        project_doc_synced = True
    d_after = model.snapshot(D.path, with_mtime=True)
    nconf = 0

    # ---------------------------------------------------------------- files
    verdicts = {}
    for jid, fn, v in flog:
        verdicts.setdefault((jid, os.path.normpath(fn)), []).append(v)
    detected_conflicts = []
    for key in synced:
        jid = model.model_id(syncgen.sp_of(key))
        sf = job_files(s_snap, jid)
        fb, fa = job_files(d_before, jid), job_files(d_after, jid)
        for rel, sent in sf.items():
            if sent[0] != "f" or rel in (model.SP_FILE, model.DOC_FILE) or rel not in fb or fb[rel][0] != "f":
                continue
            differs = sent[1] != fb[rel][1]
            sig_equal = len(sent[1]) == len(fb[rel][1]) and sent[2] == fb[rel][2]
            vs = verdicts.get((jid, rel), [])
            overwritten = fa.get(rel, (None, None))[1] == sent[1] and differs
            untouched = fa.get(rel, (None, None))[:2] == fb[rel][:2]
            if differs:
                nconf += 1
            ctx.monitor("strategy_only_for_differing")
            if vs and not differs:
                ctx.violation("strategy-consulted-for-identical-file", "the file strategy was asked about a file that does not differ",
                              {"job": key, "file": rel, "opts": opts})
                return
            if not differs:
                if not untouched:
                    ctx.violation("identical-file-rewritten-with-other-content", "a non-conflicting file changed", {"file": rel})
                    return
                continue
            ctx.monitor("file_overwritten_iff_verdict")
            said_yes = any(vs)
            # the named strategies have a documented meaning of their own
            want = {"always": True, "never": False, "update": sent[2] > fb[rel][2],
                    "custom": os.path.basename(rel).startswith("a")}.get(opts["strategy"])
            if vs and want is not None and any(v != want for v in vs):
                ctx.violation("named-strategy-verdict-wrong", f"FileSync.{opts['strategy']} returned {vs} where its definition gives {want}",
                              {"job": key, "file": rel, "src_mtime_ns": sent[2], "dst_mtime_ns": fb[rel][2]})
                return
            if overwritten and not said_yes:
                ctx.violation("file-overwritten-without-true-verdict", "a differing file was overwritten although the strategy did not say so",
                              {"job": key, "file": rel, "verdicts": vs, "opts": opts, "raised": repr(err)})
                return
            if said_yes and not overwritten and err is None:
                ctx.violation("file-not-overwritten-despite-true-verdict", "strategy returned True but the file was not overwritten",
                              {"job": key, "file": rel, "verdicts": vs, "opts": opts})
                return
            if not overwritten and not untouched:
                ctx.violation("conflicting-file-modified-without-overwrite", "a conflicting file was changed to something else",
                              {"job": key, "file": rel})
                return
            nested = os.sep in rel
            examined = (not nested or opts["recursive"]) and not syncgen.excluded(opts, os.path.basename(rel)) \
                and not any(syncgen.excluded(opts, p) for p in rel.split(os.sep)[:-1])
            if examined and not sig_equal:
                detected_conflicts.append((key, rel))
                if not vs and opts["strategy"] is not None and err is None:
                    ctx.violation("differing-file-never-put-to-strategy", "a differing file was not put to the strategy",
                                  {"job": key, "file": rel, "opts": opts})
                    return
            if syncgen.excluded(opts, os.path.basename(rel)) and (vs or overwritten):
                ctx.violation("excluded-file-consulted-or-overwritten", "an excluded file took part in conflict handling",
                              {"job": key, "file": rel, "opts": opts})
                return
    if opts["strategy"] is None:
        ctx.monitor("no_strategy_raises")
        if isinstance(err, FileSyncConflict):
            named = getattr(err, "filename", None)
            if not any(os.path.basename(rel) == named or rel == named for _, rel in detected_conflicts):
                ctx.violation("filesyncconflict-names-non-conflicting-file", "FileSyncConflict names a file that is not a detected conflict",
                              {"named": named, "conflicts": detected_conflicts})
                return
        elif err is None and detected_conflicts:
            ctx.violation("file-conflict-silently-ignored", "differing files, no strategy, yet the sync returned",
                          {"conflicts": detected_conflicts, "opts": opts})
            return

    # ---------------------------------------------------------------- documents
    if isinstance(err, DocumentSyncConflict):
        # the rollback clause holds whatever the options: repeat the raising call as a dry run on a rebuilt destination
        D2 = syncgen.build(ctx, dst_spec, "e")

        def doc_files(root):
            return {k: v[1] for k, v in model.snapshot(root).items()
                    if v[0] == "f" and os.path.basename(k) in (model.DOC_FILE, os.path.basename(model.PDOC_FILE))}

        b2 = doc_files(D2.path)
        if case["level"] == "job":
            try:
                D2.open_job(syncgen.sp_of(synced[0])).sync(
                    S.open_job(syncgen.sp_of(synced[0])), strategy=syncgen.file_strategy(opts["strategy"], []),
                    exclude=copy.deepcopy(opts["exclude"]), doc_sync=syncgen.doc_strategy(opts, []),
                    recursive=opts["recursive"], dry_run=True)
                err2 = None
            except Exception as e:  # noqa
                err2 = e
        else:
            err2 = syncgen.call_sync(D2, S, opts, [], [], entry=case["entry"], dry_run=True)
        if isinstance(err2, DocumentSyncConflict):
            ctx.monitor("doc_rollback_dry_run")
            a2 = doc_files(D2.path)
            changed = sorted(k for k in set(a2) | set(b2) if a2.get(k) != b2.get(k))
            if changed:
                ctx.violation("document-not-rolled-back-after-conflict",
                              "DocumentSyncConflict was raised in a dry run but a destination document changed",
                              {"files": changed, "before": {k: b2.get(k, b"").decode() for k in changed},
                               "after": {k: a2.get(k, b"").decode() for k in changed}, "dry_run": True})
                return
    docs = []
    if project_doc_synced:
        before = json.loads(d_before[model.PDOC_FILE][1].decode()) if model.PDOC_FILE in d_before else {}
        after = json.loads(d_after[model.PDOC_FILE][1].decode()) if model.PDOC_FILE in d_after else {}
        docs.append(("project", src_spec["pdoc"], before, after, model.PDOC_FILE))
    for key in synced:
        jid = model.model_id(syncgen.sp_of(key))
        fb, fa = job_files(d_before, jid), job_files(d_after, jid)
        docs.append((key, src_spec["jobs"][key]["doc"], doc_of(fb), doc_of(fa),
                     os.path.join("workspace", jid, model.DOC_FILE)))
    all_conflict_paths = set()
    ds = opts["doc_sync"]
    keys = set(opts.get("keys", []))
    for name, sdoc, before, after, relfile in docs:
        conflicts, shape = doc_conflicts(sdoc, before)
        all_conflict_paths.update(conflicts)
        nconf += len(conflicts)
        if relfile + "~" in d_after:
            ctx.violation("document-backup-left-behind", "a '~' backup of a document remains", {"file": relfile + "~"})
            return
        if isinstance(err, TypeError) and shape:
            ctx.violation("bykey-recurses-into-non-mapping", "ByKey raised TypeError where the source holds a mapping and the destination a scalar",
                          {"doc": name, "paths": shape, "src": sdoc, "dst": before})
            return
        if ds == "NO_SYNC":
            if not model.typed_eq(after, before):
                ctx.violation("no_sync-changed-document", "DocSync.NO_SYNC changed a document", {"doc": name})
                return
            continue
        if isinstance(err, DocumentSyncConflict):
            ctx.monitor("doc_rollback")
            if conflicts and not model.typed_eq(after, before):
                ctx.violation("document-not-rolled-back-after-conflict",
                              "DocumentSyncConflict was raised but a conflicting destination document changed",
                              {"doc": name, "before": before, "after": after, "conflicts": conflicts})
                return
            continue
        if err is not None:
            continue
        ctx.monitor("key_overwritten_iff_selected")
        if ds == "update":
            exp = copy.deepcopy(before)
            exp.update(copy.deepcopy(sdoc))
        elif ds in ("bykey_fn", "bykey_regex"):
            exp = expected_doc(sdoc, before, lambda p: p in keys)
        else:  # default ByKey(): returned => there was no conflict
            exp = expected_doc(sdoc, before, lambda p: False)
            if conflicts:
                ctx.violation("document-conflict-silently-ignored", "conflicting keys, no key strategy, yet the sync returned",
                              {"doc": name, "conflicts": conflicts})
                return
        if not model.typed_eq(after, exp):
            bad = [p for p in conflicts if not model.typed_eq(get_path(after, p), get_path(exp, p))]
            key = "document-merge-differs-from-model"
            if bad and all(p.count(".") >= 2 for p in bad):
                key = "bykey-asks-strategy-about-truncated-key"
            ctx.violation(key, "merged destination document differs from 'overwrite iff the key strategy selects the full dotted path'",
                          {"doc": name, "src": sdoc, "before": before, "after": after, "expected": exp,
                           "selected_keys": sorted(keys), "doc_sync": ds})
            return
    if ds == "bykey_fn" and err is None:
        ctx.monitor("key_strategy_full_path")
        foreign = [k for k in dlog if k not in all_conflict_paths]
        if foreign:
            ctx.violation("bykey-asks-strategy-about-truncated-key", "the key strategy was asked about a key that is not the full dotted path of a conflict",
                          {"asked": sorted(set(dlog)), "conflict_paths": sorted(all_conflict_paths)})
            return
    if nconf:
        ctx.distinct("nontrivial", case)
        ctx.sample({"opts": opts, "level": case["level"], "conflicts": nconf, "raised": type(err).__name__ if err else None})
