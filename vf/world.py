"""History executor: real signac projects driven side by side with a plain in-memory model.

model[p] = {id: {"sp": plain, "doc": plain, "files": {relpath: bytes}}}
A handle record = {"job": Job, "p": project index, "sp": model state point of the handle,
"grp": shallow-copy group id, "docpath": id for which this handle's document object was
created (or None)}. Handles in one group must follow each other's re-keys.

Every op is a JSON list; indices are taken modulo the number of live handles / jobs so
that any op list is executable (needed for shrinking and replay).
"""

import copy
import os
import pickle

from . import fsmon, model, sig

SP_VALUES = {
    "a": [1, 1.0, "1"],
    "b": [0, 1, True],
    "c": ["x", "y é", None, ""],
    "n": [{"x": 1}, {"x": 2}, [1, 2]],
}
# One value family per document key: the dependency's in-place reload keeps an existing value that
# is Python-equal to the new one (1 / True) and ignores None over a collection (C05 reports those).
DOC_VALUES_BY_KEY = {
    "k": [1, 1.5, "s", False],
    "k2": [[1, 2], {"k": 1}, {"k": {"z": [1]}}, [3]],
    "n": [None, "s", 2],
    "z": [7, "zz"],
}
DOC_VALUES = [1, 1.5, "s", None, False, [1, 2], {"k": 1}, {"k": {"z": [1]}}]
FILE_NAMES = ["f.txt", "g.bin", "sub/h.txt"]


def rand_sp(rng):
    sp = {}
    for k, vals in SP_VALUES.items():
        if rng.random() < 0.5:
            sp[k] = copy.deepcopy(rng.choice(vals))
    return sp


class Abort(Exception):
    """History cannot be continued meaningfully (after a reported violation)."""


class World:
    def __init__(self, ctx, nproj=2, check_handles=True, observe_every_step=True):
        import signac

        self.ctx = ctx
        self.signac = signac
        self.paths = [sig.new_project(ctx, f"w{i}").path for i in range(nproj)]
        self.sessions = [signac.Project(p) for p in self.paths]
        self.model = [dict() for _ in range(nproj)]
        self.handles = []
        self.ngrp = 0
        self.junk = [set() for _ in range(nproj)]
        self.check_handles = check_handles
        self.observe_every_step = observe_every_step
        self.trace = []
        self.stale_cache_ids = [set() for _ in range(nproj)]

    # ------------------------------------------------------------------ helpers
    def _new_handle(self, job, p, sp, grp=None):
        if grp is None:
            self.ngrp += 1
            grp = self.ngrp
        rec = {"job": job, "p": p, "sp": copy.deepcopy(sp), "grp": grp, "docid": None}
        self.handles.append(rec)
        return rec

    def _h(self, i):
        if not self.handles:
            return None
        rec = self.handles[i % len(self.handles)]
        if rec.get("lazy") and model.model_id(rec["sp"]) not in self.model[rec["p"]]:
            # a handle opened by id / from iteration loads its state point lazily from disk; once its
            # job directory is gone it cannot know it any more: released, the op is skipped
            self.handles.remove(rec)
            self.ctx.count("lazy_handle_of_vanished_job_released")
            return None
        return rec

    def _group(self, rec):
        return [r for r in self.handles if r["grp"] == rec["grp"]]

    def viol(self, key, what, witness=None):
        w = {"trace": self.trace[-12:]}
        if witness:
            w.update(witness)
        self.ctx.violation(key, what, w)

    # ------------------------------------------------------------------ ops
    def apply(self, op):
        """Execute one op on the real system and on the model; compare outcomes."""
        self.trace.append(op)
        kind = op[0]
        fn = getattr(self, "op_" + kind)
        with fsmon.Session(self.paths, contain=self.paths) as s:
            res = fn(*op[1:])
        self.ctx.monitor("contain")
        if s.policy_hits:
            self.viol("writes-outside-project-roots", "an operation mutated paths outside the project roots",
                      {"hits": s.policy_hits[:4]})
        self.last_events = s
        return res

    def _expect(self, real_exc, model_exc, what):
        """Compare exception classes (None = returned)."""
        rn = type(real_exc).__name__ if real_exc is not None else None
        if rn != model_exc:
            return f"{what}: real {'raised ' + rn + ': ' + str(real_exc)[:200] if rn else 'returned'}, model expects {model_exc or 'return'}"
        return None

    def op_open(self, p, sp):
        p %= len(self.paths)
        job = self.sessions[p].open_job(copy.deepcopy(sp))
        self._new_handle(job, p, sp)

    def op_openid(self, p, k, plen=32):
        p %= len(self.paths)
        ids = sorted(self.model[p])
        if not ids:
            return
        jid = ids[k % len(ids)]
        try:
            job = self.sessions[p].open_job(id=jid)
        except Exception as e:  # noqa
            self.viol("open-by-id-fails", f"open_job(id=existing) raised {type(e).__name__}: {e}", {"id": jid})
            raise Abort()
        self._new_handle(job, p, self.model[p][jid]["sp"])["lazy"] = True

    def op_iterhandle(self, p, k):
        """Handle taken from iteration over the project."""
        p %= len(self.paths)
        jobs = sorted(self.sessions[p], key=lambda j: j.id)
        if not jobs:
            return
        job = jobs[k % len(jobs)]
        if job.id in self.model[p]:
            self._new_handle(job, p, self.model[p][job.id]["sp"])["lazy"] = True

    def op_copy(self, i):
        rec = self._h(i)
        if rec is None:
            return
        unmaterialised = bool(getattr(rec["job"], "_statepoint_requires_init", False))
        job = copy.copy(rec["job"])
        new = self._new_handle(job, rec["p"], rec["sp"], grp=rec["grp"])
        new["copied_unmaterialised"] = unmaterialised
        if unmaterialised:
            rec["copied_unmaterialised"] = True
        self._inherit(new, rec)

    @staticmethod
    def _inherit(new, rec):
        """A copied handle object carries the lazily cached per-handle state of its origin."""
        for k in ("docid", "dir_stale", "doc_stale", "lazy"):
            if k in rec:
                new[k] = rec[k]

    def op_deepcopy(self, i):
        rec = self._h(i)
        if rec is None:
            return
        job = copy.deepcopy(rec["job"])
        new = self._new_handle(job, rec["p"], rec["sp"])
        self._inherit(new, rec)

    def op_pickle(self, i):
        rec = self._h(i)
        if rec is None:
            return
        try:
            job = pickle.loads(pickle.dumps(rec["job"]))
        except RecursionError:
            spd = getattr(rec["job"], "_statepoint", None)
            ncopies = len({id(j) for j in getattr(spd, "_jobs", [])})
            materialised = not getattr(rec["job"], "_statepoint_requires_init", True)
            self.viol(
                "pickle-of-handle-with-shallow-copy-recursion" if ncopies > 1
                else "pickle-roundtrip-fails",
                "pickle round trip of a job handle raised RecursionError",
                {"copies_in_group": ncopies, "statepoint_materialised": materialised},
            )
            return
        except Exception as e:  # noqa
            self.viol("pickle-roundtrip-fails", f"pickle round trip raised {type(e).__name__}: {e}")
            return
        new = self._new_handle(job, rec["p"], rec["sp"])
        self._inherit(new, rec)

    def op_procdo(self, i, value):
        """Pickle the handle into a freshly started interpreter, which initialises the job and writes a
        document key through it (the unpickled handle is an independent handle in another process)."""
        import subprocess
        import sys
        import tempfile

        rec = self._h(i)
        if rec is None or self._doc_stale(rec):
            return
        try:
            blob = pickle.dumps(rec["job"])
        except RecursionError:
            return  # known finding, reported by op_pickle
        code = (
            "import pickle, sys\n"
            "job = pickle.load(open(sys.argv[1], 'rb'))\n"
            "job.init()\n"
            "job.document['from_proc'] = int(sys.argv[2])\n"
            "print(job.id)\n"
        )
        with tempfile.NamedTemporaryFile(suffix=".pkl", delete=False) as f:
            f.write(blob)
        try:
            r = subprocess.run([sys.executable, "-B", "-c", code, f.name, str(value)], capture_output=True, text=True,
                               timeout=120)
        finally:
            os.unlink(f.name)
        self.ctx.count("ops_in_fresh_process")
        if r.returncode != 0:
            if rec.get("dir_stale") and "FileNotFoundError" in r.stderr:
                self.ctx.count("stale_handle_enoent_accepted")
                return
            key = "pickled-handle-fails-in-new-process"
            if "_thread_lock" in r.stderr and "KeyError" in r.stderr.strip().splitlines()[-1]:
                key = "unpickled-collection-lock-not-registered-in-new-process"
            elif "RecursionError" in r.stderr.strip().splitlines()[-1]:
                key = "pickle-of-handle-with-shallow-copy-recursion"
            self.viol(key, "a handle pickled into a fresh interpreter could not init / write its document",
                      {"stderr": r.stderr[-600:]})
            return
        want = model.model_id(rec["sp"])
        if r.stdout.strip() != want:
            self.viol("pickled-handle-has-other-id", "the unpickled handle in the new process reports another id",
                      {"got": r.stdout.strip(), "want": want})
            raise Abort()
        ent = self._ensure(rec)
        ent["doc"]["from_proc"] = value

    def _exists(self, rec):
        return model.model_id(rec["sp"]) in self.model[rec["p"]]

    def _entry(self, rec):
        return self.model[rec["p"]].get(model.model_id(rec["sp"]))

    def _ensure(self, rec):
        jid = model.model_id(rec["sp"])
        m = self.model[rec["p"]]
        if jid not in m:
            m[jid] = {"sp": copy.deepcopy(rec["sp"]), "doc": {}, "files": {}}
        return m[jid]

    def op_init(self, i):
        rec = self._h(i)
        if rec is None:
            return
        _, e = sig.exc_name(rec["job"].init)
        msg = self._expect(e, None, "init")
        if msg:
            self.viol("init-fails", msg)
            raise Abort()
        self._ensure(rec)
        rec["dir_stale"] = False

    def _doc_stale(self, rec):
        """The handle holds a document object bound to a directory that was removed or
        moved away by a handle outside its group since."""
        return rec.get("doc_stale", False)

    def _doc_op(self, i, do, model_do, name):
        rec = self._h(i)
        if rec is None:
            return
        if self._doc_stale(rec):
            # outcome depends on lazily cached per-handle state: the statement promises
            # nothing precise here (see DESIGN C05); such ops are left to C05's dedicated monitor
            self.ctx.count("stale_doc_ops_skipped")
            return
        _, e = sig.exc_name(do, rec["job"])
        if e is not None:
            if self._accept_stale_enoent(rec, e):
                # the failed write stays in the handle's in-memory document object
                rec["doc_stale"] = True
                return
            self.viol("document-op-fails", f"{name} raised {type(e).__name__}: {e}")
            raise Abort()
        ent = self._ensure(rec)
        model_do(ent["doc"])
        rec["docid"] = model.model_id(rec["sp"])

    def op_docset(self, i, key, value):
        def do(job):
            job.document[key] = copy.deepcopy(value)

        def mdo(doc):
            doc[key] = copy.deepcopy(value)

        self._doc_op(i, do, mdo, "doc set")

    def op_docdel(self, i, key):
        rec = self._h(i)
        if rec is None:
            return
        ent = self._entry(rec)
        if ent is None or key not in ent["doc"]:
            return

        def do(job):
            del job.document[key]

        def mdo(doc):
            del doc[key]

        self._doc_op(i, do, mdo, "doc del")

    def op_docreset(self, i, mapping):
        def do(job):
            job.document = copy.deepcopy(mapping)

        def mdo(doc):
            doc.clear()
            doc.update(copy.deepcopy(mapping))

        rec = self._h(i)
        if rec is None:
            return
        ent = self._entry(rec)
        if ent is not None and _has_equal_typed_conflict(ent["doc"], mapping):
            return  # dependency keeps Python-equal existing values on reset (DESIGN C05 convention)
        self._doc_op(i, do, mdo, "doc reset")

    def op_file(self, i, name, data):
        rec = self._h(i)
        if rec is None or not self._exists(rec):
            return
        job = rec["job"]
        path = job.fn(name)
        sig.write_file(path, data)
        self._entry(rec)["files"][name] = data.encode() if isinstance(data, str) else data
        d = os.path.dirname(name)
        while d:
            self._entry(rec)["files"].setdefault(d, None)  # directory marker
            d = os.path.dirname(d)

    def _mark_dir_gone(self, p, jid, by_rec, group_follows):
        """The directory of job `jid` in project p disappears (removed / moved / re-keyed) through
        the handle object by_rec. Other handle objects of that job may keep lazily cached state
        (_directory_known, a document object bound to the old path)."""
        for r in self.handles:
            if r is by_rec or r["p"] != p or model.model_id(r["sp"]) != jid:
                continue
            if group_follows and r["grp"] == by_rec["grp"]:
                continue
            r["dir_stale"] = True
            if r["docid"] == jid:
                r["doc_stale"] = True
        by_rec["docid"] = None

    def _accept_stale_enoent(self, rec, e):
        if rec.get("dir_stale") and isinstance(e, FileNotFoundError):
            self.ctx.count("stale_handle_enoent_accepted")
            return True
        return False

    def op_remove(self, i):
        rec = self._h(i)
        if rec is None:
            return
        _, e = sig.exc_name(rec["job"].remove)
        if e is not None:
            self.viol("remove-fails", f"remove raised {type(e).__name__}: {e}")
            raise Abort()
        jid = model.model_id(rec["sp"])
        if jid in self.model[rec["p"]]:
            del self.model[rec["p"]][jid]
            self.stale_cache_ids[rec["p"]].add(jid)
            self._mark_dir_gone(rec["p"], jid, rec, group_follows=False)

    def op_clear(self, i):
        rec = self._h(i)
        if rec is None:
            return
        if self._doc_stale(rec):
            return
        existed = self._exists(rec)
        _, e = sig.exc_name(rec["job"].clear)
        if e is not None and self._accept_stale_enoent(rec, e):
            return
        if e is not None:
            self.viol("clear-fails", f"clear raised {type(e).__name__}: {e}")
            raise Abort()
        if existed:
            ent = self._entry(rec)
            ent["files"] = {}
            ent["doc"] = {}
            rec["docid"] = model.model_id(rec["sp"])

    def op_reset(self, i):
        rec = self._h(i)
        if rec is None:
            return
        if self._doc_stale(rec):
            return
        existed = self._exists(rec)
        _, e = sig.exc_name(rec["job"].reset)
        if e is not None and self._accept_stale_enoent(rec, e):
            return
        if e is not None:
            self.viol("reset-fails", f"reset raised {type(e).__name__}: {e}")
            raise Abort()
        ent = self._ensure(rec)
        rec["dir_stale"] = False
        if existed:
            ent["files"] = {}
            ent["doc"] = {}
            rec["docid"] = model.model_id(rec["sp"])

    # -- state point changes ------------------------------------------------
    def _rekey(self, rec, new_sp, do, what, expect_keyerror=False):
        from signac.errors import DestinationExistsError

        p = rec["p"]
        old_sp = rec["sp"]
        old_id, new_id = model.model_id(old_sp), model.model_id(new_sp)
        m = self.model[p]
        if expect_keyerror:
            mexc = "KeyError"
        elif old_id != new_id and old_id in m and new_id in m:
            mexc = "DestinationExistsError"
        else:
            mexc = None
        before = None
        if mexc is not None:
            before = model.snapshot(self.paths[p])
        _, e = sig.exc_name(do, rec["job"])
        msg = self._expect(e, mexc, what)
        if msg:
            key = "rekey-outcome-differs"
            if mexc == "DestinationExistsError" and e is None:
                key = "rekey-clobbers-existing-destination"
            if (isinstance(e, KeyError) and mexc is None and str(e.args[0]).endswith(model.SP_FILE)
                    and (rec.get("dir_stale") or old_id not in m)):
                key = "stale-handle-rekey-keyerror-from-lock-registry"
            self.viol(key, msg, {"old_sp": old_sp, "new_sp": new_sp})
            raise Abort()
        if mexc is not None:
            self.ctx.monitor("failed_op_no_effect")
            after = model.snapshot(self.paths[p])
            if before != after:
                self.viol("failed-rekey-changed-disk", f"{what} raised {mexc} but the project changed on disk",
                          {"diff": model.snap_diff(before, after)})
                raise Abort()
            if mexc == "KeyError":
                self.ctx.monitor("update_statepoint_no_overwrite")
                if self.last_mut_count():
                    pass
            return False
        if old_id == new_id:
            return True
        if old_id in m:
            ent = m.pop(old_id)
            ent["sp"] = copy.deepcopy(new_sp)
            m[new_id] = ent
            self.stale_cache_ids[p].add(old_id)
            self._mark_dir_gone(p, old_id, rec, group_follows=True)
        for r in self._group(rec):
            r["sp"] = copy.deepcopy(new_sp)
            if r["docid"] == old_id:
                r["docid"] = None
        return True

    def last_mut_count(self):
        return 0

    def op_spset(self, i, key, value):
        rec = self._h(i)
        if rec is None:
            return
        new_sp = copy.deepcopy(rec["sp"])
        new_sp[key] = copy.deepcopy(value)

        def do(job):
            job.statepoint[key] = copy.deepcopy(value)

        self._rekey(rec, new_sp, do, f"sp[{key!r}]={value!r}")

    def op_spattr(self, i, key, value):
        rec = self._h(i)
        if rec is None or not key.isidentifier():
            return
        new_sp = copy.deepcopy(rec["sp"])
        new_sp[key] = copy.deepcopy(value)

        def do(job):
            setattr(job.sp, key, copy.deepcopy(value))

        self._rekey(rec, new_sp, do, f"sp.{key}={value!r}")

    def op_spdel(self, i, key):
        rec = self._h(i)
        if rec is None or key not in rec["sp"]:
            return
        new_sp = copy.deepcopy(rec["sp"])
        del new_sp[key]

        def do(job):
            del job.statepoint[key]

        self._rekey(rec, new_sp, do, f"del sp[{key!r}]")

    def op_spnested(self, i, value):
        """Edit through a sub-mapping / list: sp.n.x = value or sp.n.append(value)."""
        rec = self._h(i)
        if rec is None or "n" not in rec["sp"]:
            return
        new_sp = copy.deepcopy(rec["sp"])
        if isinstance(new_sp["n"], dict):
            new_sp["n"]["x"] = value

            def do(job):
                job.sp.n.x = value

        elif isinstance(new_sp["n"], list):
            new_sp["n"].append(value)

            def do(job):
                job.sp.n.append(value)

        else:
            return
        self._rekey(rec, new_sp, do, f"nested edit {value!r}")

    def op_spassign(self, i, sp):
        rec = self._h(i)
        if rec is None:
            return
        if _has_equal_typed_conflict(rec["sp"], sp):
            self.ctx.count("typed_equal_assign_skipped")
            return

        def do(job):
            job.statepoint = copy.deepcopy(sp)

        self._rekey(rec, copy.deepcopy(sp), do, f"statepoint={sp!r}")

    def op_update_sp(self, i, update, overwrite):
        rec = self._h(i)
        if rec is None:
            return
        cur = rec["sp"]
        if _has_equal_typed_conflict(cur, {k: v for k, v in update.items() if k in cur}):
            self.ctx.count("typed_equal_assign_skipped")
            return
        conflict = any(k in cur and cur[k] != v for k, v in update.items())
        new_sp = copy.deepcopy(cur)
        new_sp.update(copy.deepcopy(update))

        def do(job):
            job.update_statepoint(copy.deepcopy(update), overwrite=overwrite)

        if conflict and not overwrite:
            self._rekey(rec, cur, do, f"update_statepoint({update!r})", expect_keyerror=True)
        else:
            self._rekey(rec, new_sp, do, f"update_statepoint({update!r}, overwrite={overwrite})")

    # -- move / clone -------------------------------------------------------
    def op_move(self, i, p2):
        rec = self._h(i)
        if rec is None or len(self.paths) < 2:
            return
        p2 %= len(self.paths)
        p = rec["p"]
        if p2 == p:
            return
        jid = model.model_id(rec["sp"])
        if jid not in self.model[p]:
            mexc = "RuntimeError"
        elif jid in self.model[p2]:
            mexc = "DestinationExistsError"
        else:
            mexc = None
        before = (model.snapshot(self.paths[p]), model.snapshot(self.paths[p2])) if mexc else None
        _, e = sig.exc_name(rec["job"].move, self.sessions[p2])
        msg = self._expect(e, mexc, "move")
        if msg:
            self.viol("move-clobbers-existing-destination" if (mexc == "DestinationExistsError" and e is None)
                      else "move-outcome-differs", msg)
            raise Abort()
        if mexc:
            self.ctx.monitor("failed_op_no_effect")
            after = (model.snapshot(self.paths[p]), model.snapshot(self.paths[p2]))
            if before != after:
                self.viol("failed-move-changed-disk", f"move raised {mexc} but a project changed on disk",
                          {"diff": model.snap_diff(before[0], after[0]) + model.snap_diff(before[1], after[1])})
                raise Abort()
            return
        self.model[p2][jid] = self.model[p].pop(jid)
        self.stale_cache_ids[p].add(jid)
        self._mark_dir_gone(p, jid, rec, group_follows=True)
        # the moved handle now lives in p2, and so do its shallow copies (C04: every live copy follows)
        for r in self._group(rec):
            r["p"] = p2
            r["docid"] = None

    def op_clone(self, i, p2):
        rec = self._h(i)
        if rec is None:
            return
        p2 %= len(self.paths)
        p = rec["p"]
        jid = model.model_id(rec["sp"])
        if jid not in self.model[p]:
            mexc = "ValueError"
        elif jid in self.model[p2]:
            mexc = "DestinationExistsError"
        else:
            mexc = None
        before = (model.snapshot(self.paths[p]), model.snapshot(self.paths[p2]))
        new, e = sig.exc_name(self.sessions[p2].clone, rec["job"])
        msg = self._expect(e, mexc, "clone")
        if msg:
            self.viol("clone-clobbers-existing-destination" if (mexc == "DestinationExistsError" and e is None)
                      else "clone-outcome-differs", msg)
            raise Abort()
        after = (model.snapshot(self.paths[p]), model.snapshot(self.paths[p2]))
        if mexc:
            self.ctx.monitor("failed_op_no_effect")
            if before != after:
                self.viol("failed-clone-changed-disk", f"clone raised {mexc} but a project changed on disk",
                          {"diff": model.snap_diff(before[0], after[0]) + model.snap_diff(before[1], after[1])})
                raise Abort()
            return
        if p2 != p and before[0] != after[0]:
            self.viol("clone-changed-source", "clone changed the source project",
                      {"diff": model.snap_diff(before[0], after[0])})
            raise Abort()
        self.model[p2][jid] = copy.deepcopy(self.model[p][jid])
        self._new_handle(new, p2, rec["sp"])

    # -- cache / sessions / environment -------------------------------------
    def op_update_cache(self, p):
        p %= len(self.paths)
        sig.exc_name(self.sessions[p].update_cache)

    def op_restart(self, p):
        p %= len(self.paths)
        self.sessions[p] = self.signac.Project(self.paths[p])

    def op_drop_all(self):
        self.handles = []
        self.sessions = [self.signac.Project(p) for p in self.paths]

    def op_junk(self, p, kind):
        p %= len(self.paths)
        ws = os.path.join(self.paths[p], "workspace")
        ids = sorted(self.model[p]) or ["0123456789abcdef0123456789abcdef"]
        base = ids[0]
        name = {
            0: base + "_bak",
            1: base[:31],
            2: base + "0",
            3: base.upper() if base.upper() != base else "ABCDEF" + base[6:],
            4: ".hidden_dir",
            5: "x" + base[1:] if base[0] != "x" else "y" + base[1:],
            6: "tmp." + base,
            # a free, well-formed id followed by one character an anchored-looking pattern may let through
            7: "0a1b2c3d4e5f60718293a4b5c6d7e8f9\n",
            8: "0a1b2c3d4e5f60718293a4b5c6d7e8f9 ",
        }[kind % 9]
        path = os.path.join(ws, name)
        if not os.path.exists(path):
            os.makedirs(path)
            with open(os.path.join(path, "note.txt"), "w") as f:
                f.write("junk")
        self.junk[p].add(name)

    # ------------------------------------------------------------------ observation
    def observe(self):
        """Compare the fresh-session view and the raw tree of every project with the model."""
        ctx = self.ctx
        for p, path in enumerate(self.paths):
            m = self.model[p]
            ctx.monitor("fresh_view_equals_model")
            try:
                view = sig.api_view(path)
            except Exception as e:  # noqa
                self.viol("fresh-view-raises", f"iterating a fresh Project raised {type(e).__name__}: {e}")
                raise Abort()
            if set(view) != set(m):
                extra = sorted(set(view) - set(m))
                key = "workspace-id-set-differs"
                if extra and not (set(m) - set(view)) and all(
                    any(j.startswith(x) or x.startswith(j[:32]) for j in self.junk[p]) for x in extra
                ):
                    key = "non-id-directory-listed-as-job"
                self.viol(key, "ids seen by a fresh Project differ from the model",
                          {"project": p, "got": sorted(view), "model": sorted(m), "junk": sorted(self.junk[p])})
                raise Abort()
            for jid, ent in m.items():
                v = view[jid]
                if not model.typed_eq(v["sp"], ent["sp"]):
                    self.viol("statepoint-differs-from-model", "state point seen by a fresh handle differs",
                              {"id": jid, "got": v["sp"], "model": ent["sp"]})
                    raise Abort()
                if not model.typed_eq(v["doc"], ent["doc"]):
                    self.viol("document-differs-from-model", "document seen by a fresh handle differs",
                              {"id": jid, "got": v["doc"], "model": ent["doc"]})
                    raise Abort()
                files = {k: (("d",) if b is None else ("f", b)) for k, b in ent["files"].items()}
                if v["files"] != files:
                    self.viol("files-differ-from-model", "job files seen by a fresh handle differ",
                              {"id": jid, "diff": model.snap_diff(files, v["files"])})
                    raise Abort()
            # check()
            ctx.monitor("check_passes")
            fp = sig.fresh(path)
            _, e = sig.exc_name(fp.check)
            if e is not None:
                self.viol("check-fails-after-history", f"check() raised {type(e).__name__}: {e}", {"project": p})
                raise Abort()
            # raw tree: directory names == hash of their state point file
            ctx.monitor("dirname_is_hash")
            raw = model.raw_jobs(path)
            for name, ent in raw.items():
                if isinstance(ent["sp"], tuple) or model.model_id(ent["sp"]) != name:
                    self.viol("directory-name-not-hash-of-statepoint-file", "job directory name != hash(file)",
                              {"dir": name, "sp": ent["sp"]})
                    raise Abort()
            if set(raw) != set(m):
                self.viol("raw-workspace-differs", "32-hex directories on disk differ from the model",
                          {"raw": sorted(raw), "model": sorted(m)})
                raise Abort()
            # len / iteration / membership
            ctx.monitor("len_iter_contains")
            ids_iter = [j.id for j in fp]
            members = [jid for jid in m if fp.open_job(id=jid) in fp]
            fp.open_job({"probe": 1})  # makes the session read the persistent cache, if any
            ids_iter2 = [j.id for j in fp]
            if sorted(ids_iter2) != sorted(ids_iter):
                self.viol("listing-changes-after-cache-read", "iteration differs before/after the session read its cache",
                          {"before": sorted(ids_iter), "after": sorted(ids_iter2), "model": sorted(m)})
                raise Abort()
            if len(fp) != len(ids_iter) or len(ids_iter) != len(set(ids_iter)) or set(members) != set(m) or len(fp) != len(m):
                key = "len-iter-membership-disagree"
                if len(fp) > len(m) and self.junk[p]:
                    key = "non-id-directory-listed-as-job"
                self.viol(key, "len / iteration / membership disagree",
                          {"len": len(fp), "iter": sorted(ids_iter), "model": sorted(m)})
                raise Abort()
            # leftovers
            ctx.monitor("no_leftovers")
            lo = [x for x in model.leftovers(path) if not x.startswith(os.path.join(".signac", ""))]
            if lo:
                self.viol("temporary-or-backup-file-left-behind", "temporary / backup files left behind", {"files": lo})
                raise Abort()
        if self.check_handles:
            # reading statepoint() materialises lazily created per-handle state and thereby changes
            # the system under test, so the full read happens only on every 4th step and at the end
            self.nobs = getattr(self, "nobs", 0) + 1
            self.observe_handles(full=(self.nobs % 4 == 0))

    def observe_handles(self, full=True):
        ctx = self.ctx
        for n, rec in enumerate(self.handles):
            job = rec["job"]
            want = model.model_id(rec["sp"])
            ctx.monitor("handle_follows")
            problems = []
            if job.id != want:
                problems.append(("id", job.id, want))
            if os.path.basename(job.path) != job.id or os.path.dirname(job.path) != os.path.join(self.paths[rec["p"]], "workspace"):
                problems.append(("path", job.path))
            if not full:
                if problems:
                    self._handle_problem(n, rec, problems)
                continue
            ctx.monitor("handle_statepoint_read")
            try:
                spv = model.plain(job.statepoint())
                if not model.typed_eq(spv, rec["sp"]):
                    problems.append(("statepoint", spv, rec["sp"]))
            except Exception as e:  # noqa
                problems.append(("statepoint-raises", repr(e)))
            try:
                csp = model.plain(dict(job.cached_statepoint))
                if not model.typed_eq(csp, rec["sp"]):
                    problems.append(("cached_statepoint", csp, rec["sp"]))
            except Exception as e:  # noqa
                problems.append(("cached_statepoint-raises", repr(e)))
            if problems:
                kinds = {pr[0] for pr in problems}
                if (kinds <= {"statepoint-raises", "cached_statepoint-raises"} and rec.get("lazy")
                        and want not in self.model[rec["p"]]):
                    # a lazily loading handle (opened by id / from iteration, never read) whose job was
                    # removed or re-keyed through another handle cannot know its state point any more
                    self.ctx.count("lazy_handle_of_vanished_job_released")
                    rec["release"] = True
                    continue
                self._handle_problem(n, rec, problems)
        self.handles = [r for r in self.handles if not r.get("release")]

    def _handle_problem(self, n, rec, problems):
        if True:
            if True:
                kinds = {pr[0] for pr in problems}
                if rec.get("copied_unmaterialised") and "id" in kinds:
                    key = "copy-of-unmaterialised-handle-does-not-follow"
                elif kinds == {"cached_statepoint"}:
                    key = "cached-statepoint-stale-after-rekey"
                elif "statepoint" in kinds and "id" not in kinds:
                    key = "handle-statepoint-differs-from-its-id"
                else:
                    key = "handle-does-not-follow"
                self.viol(key, "a live handle does not describe the job the model says it should",
                          {"handle": n, "problems": problems})
                raise Abort()


def _has_equal_typed_conflict(cur, new):
    """Some value of `new` is Python-equal to, but typed/structurally different from, the
    existing value under the same key (the dependency's in-place update keeps the old one),
    or `None` is assigned over an existing collection."""
    if not isinstance(cur, dict) or not isinstance(new, dict):
        return False
    for k, v in new.items():
        if k in cur:
            c = cur[k]
            if isinstance(c, dict) and isinstance(v, dict):
                if _has_equal_typed_conflict(c, v):
                    return True
            elif isinstance(c, (dict, list)) and v is None:
                return True
            else:
                try:
                    if c == v and not model.typed_eq(c, v):
                        return True
                except Exception:
                    pass
                if isinstance(c, list) and isinstance(v, list) and len(c) == len(v):
                    for x, y in zip(c, v):
                        if _has_equal_typed_conflict({"_": x}, {"_": y}):
                            return True
    return False


def run_history(ctx, world, ops):
    """Apply ops, observing after every step. Returns number of ops executed."""
    n = 0
    try:
        world.observe()
        for op in ops:
            world.apply(op)
            n += 1
            if world.observe_every_step:
                world.observe()
        if not world.observe_every_step:
            world.observe()
        if world.check_handles:
            world.observe_handles(full=True)
    except Abort:
        ctx.count("histories_aborted_after_violation")
    return n
