"""C08 - the state point cache is transparent, and update_cache makes it exact."""

import copy
import gzip
import itertools
import json
import os
import shutil
import subprocess
import sys

from .. import fsmon, model, query, sig

PROP = "C08"
LEVEL = "exploration"
MONITORS = ["with_vs_without_cache", "long_lived_session", "cache_exact_after_update", "second_update_noop",
            "cache_atomic_policy"]
RULE = (
    "Histories over {init job, remove job, re-key job (key set / whole assignment), update_cache (by the mutating "
    "session, by a long-lived observer session, by a fresh session), restart session, delete cache file, corrupt-free "
    "only}: bounded-exhaustive for length<=3 (quick) / <=4 (thorough) over a 9-op alphabet plus seeded random "
    "histories up to length 40 over a job universe of 8 typed state points. After every step three observers that "
    "did NOT perform the changes - a long-lived session that read the cache earlier, a fresh session, and a fresh "
    "session on a copy of the project whose cache file was deleted (a real new process for a sample) - must agree "
    "with each other and with the model on ids, len, a find_jobs battery, membership and open-by-id state points. "
    "After each update_cache() the decoded file must list exactly the workspace ids with their true state points and "
    "an immediate second call must return None and issue no mutating FS call. Non-trivial and distinct = distinct "
    "histories after which the cache file existed and differed from the workspace at some observation."
)
RULE += (
    " " + 'Added later: state point re-assignment onto itself; out-of-step time stamps (skew); bulk workspaces of 2001+ jobs; every mutating step of update_cache failing once with an I/O error (return => exact file); jobs initialised through another live session; the acting session observed like the observer.'
    " In every third case DEBUG logging is effective for the package."
)
ASSUMPTIONS = [
    "The workspace is uncorrupted (corruption is C09's subject).",
    "Open-by-id is only checked for ids of existing jobs (a stale cache may legitimately resolve removed ids).",
]
MANIFEST = {"technique": 'runtime monitoring: three observer sessions (long-lived, fresh, fresh without cache file) vs model after every history step; FS-call monitor on update_cache', "engine": 'fs-call monitor (audit hook)'}
TIME_CAP = {"quick": 70, "thorough": 1500}

UNIVERSE = [{"a": 0}, {"a": 1}, {"a": 2}, {"a": 1.0}, {"a": "1"}, {"a": 0, "b": 1}, {"a": 2, "b": {"x": 1}}, {"b": True}]
BATTERY = [None, {"a": 1}, {"a": {"$gt": 0}}, {"b": {"$exists": True}}, {"a": {"$in": [0, 2]}}, {"b.x": 1},
           {"$not": {"a": 0}}]

ALPHA = [
    ["init", 0], ["init", 1], ["remove", 0], ["rekey", 0, 2], ["rekey", 1, 0], ["update_cache", "A"],
    ["update_cache", "fresh"], ["restart"], ["delcache"], ["reassign", 0], ["init_other", 0],
]


def rand_op(rng):
    r = rng.random()
    if r < 0.24:
        return ["init", rng.randrange(len(UNIVERSE))]
    if r < 0.3:
        return ["init_other", rng.randrange(len(UNIVERSE))]  # through another live session, not the acting one
    if r < 0.45:
        return ["remove", rng.randrange(8)]
    if r < 0.62:
        return ["rekey", rng.randrange(8), rng.randrange(len(UNIVERSE))]
    if r < 0.68:
        return ["assign", rng.randrange(8), rng.randrange(len(UNIVERSE))]
    if r < 0.72:
        return ["reassign", rng.randrange(8)]  # job.statepoint = <the value it already has>: a re-key onto itself
    if r < 0.77:
        # time stamps as a restore from backup or an out-of-step clock leaves them
        return ["skew", rng.choice(["workspace-older", "cache-older", "both-epoch"])]
    if r < 0.86:
        return ["update_cache", rng.choice(["A", "B", "fresh"])]
    if r < 0.92:
        return ["restart"]
    return ["delcache"]


def gen_cases(ctx):
    i = 0
    # workspaces large enough for update_cache to read the state points in several chunks
    for n in ([2001] if ctx.quick else [2001, 3507, 5003]):
        if ctx.take(i):
            yield {"bulk": n}
        i += 1
    # update_cache under I/O errors: whenever it *returns*, the file must be exact
    for shape in ("first", "stale-grow", "stale-shrink"):
        if ctx.take(i):
            yield {"faults": shape}
        i += 1
    # exhaustive short histories and random long ones alternate, so that a time cap (a loaded machine) thins both
    L = 3 if ctx.quick else 4
    exh = []
    for n in range(1, L + 1):
        for combo in itertools.product(range(len(ALPHA)), repeat=n):
            exh.append({"ops": [copy.deepcopy(ALPHA[k]) for k in combo], "exh": True})
    rng = ctx.grng("rand")
    rnd = []
    for _ in range(ctx.budget(1000, 50000)):
        ops = [rand_op(rng) for _ in range(rng.choice([5, 10, 20, 40]))]
        rnd.append({"ops": ops, "proc": rng.random() < 0.03})
    merged = []
    for k in range(max(len(exh), len(rnd))):
        if k < len(rnd):
            merged.append(rnd[k])
        if k < len(exh):
            merged.append(exh[k])
    for c in merged:
        if ctx.take(i):
            yield c
        i += 1


def read_cache_file(path):
    fn = os.path.join(path, model.CACHE_FILE)
    if not os.path.exists(fn):
        return None
    with gzip.open(fn, "rb") as f:
        return json.loads(f.read().decode())


def observe_session(p, ids):
    """What one session reports (JSON-able)."""
    out = {}
    # abbreviated ids: resolution must follow the workspace, not whatever the cache happens to hold
    # (asked first: a fresh session then knows only what the persistent cache file told it)
    out["prefix"] = {}
    for sp in UNIVERSE:
        full = model.model_id(sp)
        for n in (1, 2, 3):
            q = full[:n]
            if q in out["prefix"]:
                continue
            try:
                out["prefix"][q] = "job:" + p.open_job(id=q).id
            except KeyError:
                out["prefix"][q] = "KeyError"
            except LookupError:
                out["prefix"][q] = "LookupError"
            except Exception as e:  # noqa
                out["prefix"][q] = "ERR:" + type(e).__name__
    out.update({"iter": sorted(j.id for j in p), "len": len(p)})
    out["find"] = []
    for flt in BATTERY:
        try:
            out["find"].append(sorted(j.id for j in p.find_jobs(copy.deepcopy(flt))))
        except Exception as e:  # noqa
            out["find"].append("ERR:" + type(e).__name__)
    out["byid"] = {}
    out["contains"] = {}
    for jid in ids:
        try:
            j = p.open_job(id=jid)
            out["byid"][jid] = [model.plain(j.statepoint()), model.plain(dict(j.cached_statepoint))]
            out["contains"][jid] = j in p
        except Exception as e:  # noqa
            out["byid"][jid] = "ERR:" + type(e).__name__
    # membership of every universe state point (also of removed / never created jobs)
    out["member"] = {}
    for sp in UNIVERSE:
        j = p.open_job(copy.deepcopy(sp))
        out["member"][j.id] = j in p
    return out


def observe_path(path, ids):
    import signac

    return observe_session(signac.Project(path), ids)


def expected_obs(m):
    corpus = {jid: {"sp": sp, "doc": {}} for jid, sp in m.items()}
    exp = {"iter": sorted(m), "len": len(m), "find": [], "byid": {}, "contains": {}}
    for flt in BATTERY:
        if flt is None:
            exp["find"].append(sorted(m))
        else:
            ids, ill = query.expected_ids(corpus, flt)
            exp["find"].append(sorted(ids) if not ill else None)
    for jid, sp in m.items():
        exp["byid"][jid] = [sp, sp]
        exp["contains"][jid] = True
    exp["member"] = {model.model_id(sp): model.model_id(sp) in m for sp in UNIVERSE}
    exp["prefix"] = {}
    for sp in UNIVERSE:
        full = model.model_id(sp)
        for n in (1, 2, 3):
            q = full[:n]
            hits = [i for i in m if i.startswith(q)]
            exp["prefix"][q] = "job:" + hits[0] if len(hits) == 1 else ("LookupError" if hits else "KeyError")
    return exp


def compare_obs(obs, exp):
    bad = []
    if obs["iter"] != exp["iter"]:
        bad.append(("iter", obs["iter"], exp["iter"]))
    if obs["len"] != exp["len"]:
        bad.append(("len", obs["len"], exp["len"]))
    for k, (g, e) in enumerate(zip(obs["find"], exp["find"])):
        if e is not None and g != e:
            bad.append(("find", BATTERY[k], g, e))
    for jid, e in exp["byid"].items():
        g = obs["byid"].get(jid)
        if isinstance(g, str) or g is None:
            bad.append(("byid", jid, g))
        elif not (model.typed_eq(g[0], e[0]) and model.typed_eq(g[1], e[1])):
            bad.append(("byid-statepoint", jid, g, e[0]))
        if obs["contains"].get(jid) is not True:
            bad.append(("contains", jid))
    if obs.get("prefix") != exp["prefix"]:
        diff = {q: (obs.get("prefix", {}).get(q), e) for q, e in exp["prefix"].items() if obs.get("prefix", {}).get(q) != e}
        bad.append(("abbreviated-id", diff))
    if obs["member"] != exp["member"]:
        bad.append(("membership-by-statepoint", obs["member"], exp["member"]))
    return bad


def run_bulk(ctx, case):
    import signac

    A = sig.new_project(ctx, "c8b")
    path = A.path
    want = {}
    for k in range(case["bulk"]):
        sp = {"i": k}
        A.open_job(sp).init()
        want[model.model_id(sp)] = sp
    for step in range(2):
        P = signac.Project(path)  # a new session: nothing cached in memory
        ret, err = sig.exc_name(P.update_cache)
        ctx.monitor("cache_exact_after_update")
        content = read_cache_file(path)
        if err is not None or content is None or set(content) != set(want) or any(
                not model.typed_eq(content[i], want[i]) for i in want):
            missing = sorted(set(want) - set(content or {}))
            ctx.violation("cache-not-exact-after-update_cache", "after update_cache() the cache file is not exactly the workspace",
                          {"jobs": len(want), "err": repr(err), "returned": ret, "missing": len(missing),
                           "superfluous": len(set(content or {}) - set(want)), "bulk": True})
            return
        ret2, err2 = sig.exc_name(P.update_cache)
        ctx.monitor("second_update_noop")
        if err2 is not None or ret2 is not None:
            ctx.violation("second-update_cache-not-a-noop", "an immediate second update_cache() did something",
                          {"returned": ret2, "exc": repr(err2), "bulk": True})
            return
        # the workspace moves on: the next session starts from a stale file
        for k in range(3):
            sp = {"i": k}
            P.open_job(sp).remove()
            want.pop(model.model_id(sp), None)
        for k in range(2005):
            sp = {"i": case["bulk"] + step * 5000 + k}
            P.open_job(sp).init()
            want[model.model_id(sp)] = sp
    ctx.distinct("nontrivial", ["bulk", case["bulk"]])


def run_faults(ctx, case):
    """Every file-system step of an update_cache() that has something to write fails once with an I/O error. The call
    may raise; if it returns, the statement's post-condition holds: the cache file is exactly the workspace."""
    import signac

    from .. import faultrun

    shape = case["faults"]

    def sps(n, off=0):
        return [{"a": off + k} for k in range(n)]

    def setup(root):
        p = signac.init_project(root)
        if shape == "first":
            for sp in sps(3):
                p.open_job(sp).init()
        else:
            for sp in sps(4):
                p.open_job(sp).init()
            p.update_cache()
            if shape == "stale-grow":
                for sp in sps(3, 10):
                    p.open_job(sp).init()
            else:
                for sp in sps(2):
                    p.open_job(sp).remove()
        return {"p": signac.Project(root)}

    def op(root, st):
        st["ret"] = st["p"].update_cache()

    base = ctx.scratch("uf")
    root0 = os.path.join(base, "rec")
    os.makedirs(root0)
    rec = faultrun.run(setup, op, root0)
    if rec["outcome"] != "returned":
        raise RuntimeError(f"recording run failed: {rec}")
    n = 0
    for st in rec["steps"]:
        if not st["mut"]:
            continue
        for ename, eno in sorted(faultrun.ERRNOS.items()):
            if ename == "EXDEV" and st["kind"] not in ("rename", "replace"):
                continue
            root = os.path.join(base, f"r{n}")
            n += 1
            os.makedirs(root)
            res = faultrun.run(setup, op, root, plan=("err", st["k"], eno))
            ctx.monitor("update_cache_under_io_error")
            if res["outcome"] == "returned":
                want = {j: sp for j, sp in ((d, model.read_json(os.path.join(root, "workspace", d, model.SP_FILE)))
                                            for d in os.listdir(os.path.join(root, "workspace")))}
                content = read_cache_file(root)
                if content is None or set(content) != set(want) or any(not model.typed_eq(content[k], want[k]) for k in want):
                    ctx.violation("update_cache-returns-although-write-failed",
                                  "update_cache() returned normally after an injected I/O error, but the cache file is not exactly the workspace",
                                  {"shape": shape, "step": st["ev"], "errno": ename,
                                   "file_ids": sorted(content or {})[:8], "workspace_ids": sorted(want)[:8]})
                    return
            elif res["outcome"] != "raised":
                ctx.count("fault_point_not_reached")
            ctx.distinct("nontrivial", ["faults", shape, st["k"], ename])
            import shutil

            shutil.rmtree(root, ignore_errors=True)


def run_case(ctx, case):
    import signac

    if "bulk" in case:
        return run_bulk(ctx, case)
    if "faults" in case:
        return run_faults(ctx, case)
    A = sig.new_project(ctx, "c8")
    path = A.path
    B = signac.Project(path)  # long-lived observer
    list(B)
    B.open_job({"probe": 0})  # B has read the (absent) cache
    m = {}
    interesting = False
    step = 0

    def viol(key, what, wit):
        wit = dict(wit)
        wit["ops_so_far"] = case["ops"][:step]
        ctx.violation(key, what, wit)

    def observe_all(acting=False):
        nonlocal interesting
        exp = expected_obs(m)
        cache = read_cache_file(path)
        if cache is not None and set(cache) != set(m):
            interesting = True
        ids = sorted(m)
        obs_B = observe_session(B, ids)
        ctx.monitor("long_lived_session")
        bad = compare_obs(obs_B, exp)
        if bad:
            viol("long-lived-session-differs", "a long-lived session disagrees with the model",
                 {"problems": bad[:4], "cache_ids": sorted(cache) if cache is not None else None})
            return False
        # the acting session is a long-lived session too; it is looked at only at the end of its life (before a
        # restart, at the end of the history): looking warms its cache, and a cold acting session is a case of its own
        obs_A = observe_session(A, ids) if acting else exp
        if acting:
            ctx.monitor("long_lived_session")
        bad = compare_obs(obs_A, exp) if acting else None
        if bad:
            viol("long-lived-session-differs", "the acting session disagrees with the model",
                 {"problems": bad[:4], "session": "acting", "cache_ids": sorted(cache) if cache is not None else None})
            return False
        obs_C = observe_path(path, ids)
        # copy without cache file (fresh path names: filecmp/stat caches cannot interfere)
        cp = ctx.scratch("nocache")
        shutil.rmtree(cp)
        shutil.copytree(path, cp, symlinks=True)
        try:
            os.remove(os.path.join(cp, model.CACHE_FILE))
        except FileNotFoundError:
            pass
        if case.get("proc"):
            code = ("import sys, json\nfrom vf.props.c08 import observe_path\n"
                    "print(json.dumps(observe_path(sys.argv[1], json.load(sys.stdin))))\n")
            r = subprocess.run([sys.executable, "-B", "-c", code, cp], input=json.dumps(ids), capture_output=True,
                               text=True, timeout=300)
            if r.returncode != 0:
                raise RuntimeError(r.stderr[-2000:])
            obs_D = json.loads(r.stdout)
            ctx.count("observed_in_new_process")
        else:
            obs_D = observe_path(cp, ids)
        shutil.rmtree(cp, ignore_errors=True)
        ctx.monitor("with_vs_without_cache")
        bad_C, bad_D = compare_obs(obs_C, exp), compare_obs(obs_D, exp)
        if bad_C or bad_D or json.dumps(obs_C, sort_keys=True) != json.dumps(obs_D, sort_keys=True):
            key = "result-depends-on-cache-file"
            if bad_C and bad_D:
                key = "fresh-session-differs-from-model"
            viol(key, "observations with / without the cache file differ (or differ from the model)",
                 {"with_cache": bad_C[:3], "without_cache": bad_D[:3],
                  "cache_ids": sorted(cache) if cache is not None else None, "model_ids": sorted(m)})
            return False
        return True

    def do_update_cache(who):
        P = {"A": A, "B": B}.get(who) or signac.Project(path)
        before_file = read_cache_file(path)
        with fsmon.Session([path], atomic_names=[os.path.basename(model.CACHE_FILE)]) as s:
            ret, e = sig.exc_name(P.update_cache)
        ctx.monitor("cache_atomic_policy")
        if s.policy_hits:
            viol("cache-not-replaced-atomically", "the cache file was opened for writing in place / truncated",
                 {"hits": s.policy_hits[:3]})
        if e is not None:
            viol("update_cache-raises", f"update_cache raised {type(e).__name__}: {e}", {"who": who})
            return False
        cache = read_cache_file(path)
        ctx.monitor("cache_exact_after_update")
        ws_ids = sorted(d for d in os.listdir(os.path.join(path, "workspace")) if model.is_id(d))
        problems = []
        if cache is None:
            problems.append(("no-cache-file",))
        else:
            if sorted(cache) != ws_ids or sorted(cache) != sorted(m):
                problems.append(("ids", sorted(cache), ws_ids))
            for jid in set(cache) & set(m):
                true_sp = model.read_json(os.path.join(path, "workspace", jid, model.SP_FILE))
                if not model.typed_eq(cache[jid], true_sp) or not model.typed_eq(cache[jid], m[jid]):
                    problems.append(("value", jid, cache[jid], true_sp))
        if problems:
            fresh_session = who == "fresh"
            key = "cache-not-exact-after-update_cache"
            if (ret is None and before_file is not None and cache == before_file
                    and all(p[0] == "ids" for p in problems)):
                key = "update_cache-skips-rewrite-of-stale-file"
            viol(key, "after update_cache() the persistent cache does not list exactly the workspace",
                 {"who": who, "returned": ret, "problems": problems[:4]})
            return False
        # immediate second call: nothing to do
        snap = model.snapshot(path, with_mtime=True)
        with fsmon.Session([path], readonly=[path]) as s2:
            ret2, e2 = sig.exc_name(P.update_cache)
        ctx.monitor("second_update_noop")
        if e2 is not None or ret2 is not None or s2.policy_hits or model.snapshot(path, with_mtime=True) != snap:
            viol("second-update_cache-not-a-noop", "an immediate second update_cache() did something",
                 {"who": who, "returned": ret2, "exc": repr(e2), "events": s2.briefs(path, True)[:4]})
            return False
        return True

    ok = observe_all()
    nops = len(case["ops"])
    for opi, op in enumerate(case["ops"]):
        if not ok:
            break
        step += 1
        kind = op[0]
        if kind == "init":
            sp = UNIVERSE[op[1]]
            A.open_job(copy.deepcopy(sp)).init()
            m[model.model_id(sp)] = copy.deepcopy(sp)
        elif kind == "init_other":
            sp = UNIVERSE[op[1]]
            signac.Project(path).open_job(copy.deepcopy(sp)).init()
            m[model.model_id(sp)] = copy.deepcopy(sp)
        elif kind == "remove":
            if m:
                jid = sorted(m)[op[1] % len(m)]
                A.open_job(id=jid).remove()
                del m[jid]
        elif kind in ("rekey", "assign", "reassign"):
            if m:
                jid = sorted(m)[op[1] % len(m)]
                new = copy.deepcopy(m[jid]) if kind == "reassign" else UNIVERSE[op[2]]
                nid = model.model_id(new)
                if nid in m and kind != "reassign":
                    continue
                job = A.open_job(id=jid)
                old = m[jid]
                from ..world import _has_equal_typed_conflict

                if _has_equal_typed_conflict(old, new):
                    continue  # C04's typed-equal finding
                if kind in ("assign", "reassign") or set(old) != set(new):
                    job.statepoint = copy.deepcopy(new)
                else:
                    for k, v in new.items():
                        if not model.typed_eq(old.get(k), v):
                            job.sp[k] = copy.deepcopy(v)
                if job.id != nid:
                    continue_ok = False
                    viol("rekey-did-not-reach-target-id", "harness: re-key did not reach the intended id",
                         {"old": old, "new": new, "id": job.id})
                    ok = False
                    break
                del m[jid]
                m[nid] = copy.deepcopy(new)
        elif kind == "update_cache":
            ok = do_update_cache(op[1])
            if not ok:
                break
        elif kind == "restart":
            A = signac.Project(path)
        elif kind == "skew":
            fn_cache = os.path.join(path, model.CACHE_FILE)
            ws = os.path.join(path, "workspace")
            if os.path.exists(fn_cache) and os.path.isdir(ws):
                tc = os.stat(fn_cache).st_mtime
                if op[1] == "workspace-older":
                    os.utime(ws, (tc - 3600, tc - 3600))
                elif op[1] == "cache-older":
                    tw = os.stat(ws).st_mtime
                    os.utime(fn_cache, (tw - 3600, tw - 3600))
                else:
                    os.utime(ws, (0, 0))
                    os.utime(fn_cache, (0, 0))
                ctx.count("mtime_skews")
        elif kind == "delcache":
            try:
                os.remove(os.path.join(path, model.CACHE_FILE))
            except FileNotFoundError:
                pass
        ok = observe_all(acting=(opi + 1 == nops or case["ops"][opi + 1][0] == "restart"))
    ctx.count("steps", step)
    if interesting:
        ctx.distinct("nontrivial", case["ops"])
    if not case.get("exh"):
        ctx.sample({"ops": case["ops"][:10], "final_ids": sorted(m)})
