"""FS-call monitor built on sys.addaudithook (the 'sanitizer' of this harness).

One hook per process, installed lazily and never removed (audit hooks cannot be
removed); it is inert unless a Session is active. A Session watches a set of root
directories: every audited file-system call whose resolved path lies under a
root is turned into an Event; online policies are checked at once; a fault plan
can turn the k-th mutating event into process death or an OSError; a gate can
block before the event until a scheduler releases it.
"""

import errno
import os
import sys
import threading

O_MUT = os.O_WRONLY | os.O_RDWR | os.O_CREAT | os.O_TRUNC | os.O_APPEND

_installed = False
_session = None
_tls = threading.local()


class Event:
    __slots__ = ("kind", "path", "path2", "mut", "detail", "index")

    def __init__(self, kind, path, path2=None, mut=False, detail=None):
        self.kind = kind
        self.path = path
        self.path2 = path2
        self.mut = mut
        self.detail = detail
        self.index = -1

    def paths(self):
        return [p for p in (self.path, self.path2) if p is not None]

    def brief(self, root=None):
        def r(p):
            if p is None:
                return None
            if root and p.startswith(root):
                return os.path.relpath(p, root)
            return p

        s = f"{self.kind}({r(self.path)}"
        if self.path2 is not None:
            s += f" -> {r(self.path2)}"
        if self.detail:
            s += f" [{self.detail}]"
        return s + ")"

    def __repr__(self):
        return self.brief()


def _resolve(path, dir_fd=None):
    """Absolute lexical path for an audit argument (str / bytes / fd / PathLike)."""
    try:
        if isinstance(path, int):
            try:
                return os.readlink(f"/proc/self/fd/{path}")
            except OSError:
                return None
        path = os.fspath(path)
        if isinstance(path, bytes):
            path = os.fsdecode(path)
        if not os.path.isabs(path):
            if dir_fd is not None and isinstance(dir_fd, int):
                try:
                    base = os.readlink(f"/proc/self/fd/{dir_fd}")
                except OSError:
                    base = os.getcwd()
            else:
                base = os.getcwd()
            path = os.path.join(base, path)
        return os.path.normpath(path)
    except Exception:
        return None


def _open_mode_detail(flags):
    acc = flags & os.O_ACCMODE
    parts = []
    parts.append({os.O_RDONLY: "r", os.O_WRONLY: "w", os.O_RDWR: "rw"}.get(acc, "?"))
    if flags & os.O_CREAT:
        parts.append("creat")
    if flags & os.O_EXCL:
        parts.append("excl")
    if flags & os.O_TRUNC:
        parts.append("trunc")
    if flags & os.O_APPEND:
        parts.append("append")
    return ",".join(parts)


def _translate(event, args):
    """Audit event -> Event or None."""
    try:
        if event == "open":
            path, mode, flags = args
            if isinstance(path, int):
                return None  # fdopen of an already-open descriptor
            p = _resolve(path)
            if flags is None:
                flags = 0
            mut = bool(flags & O_MUT)
            return Event("open", p, mut=mut, detail=_open_mode_detail(flags))
        if event == "os.mkdir":
            path, mode, dir_fd = args
            return Event("mkdir", _resolve(path, dir_fd), mut=True)
        if event == "os.rmdir":
            path, dir_fd = args
            return Event("rmdir", _resolve(path, dir_fd), mut=True)
        if event == "os.remove":
            path, dir_fd = args
            return Event("remove", _resolve(path, dir_fd), mut=True)
        if event == "os.rename":
            src, dst, sfd, dfd = args
            return Event("rename", _resolve(src, sfd), _resolve(dst, dfd), mut=True)
        if event == "os.symlink":
            src, dst, dir_fd = args
            return Event("symlink", _resolve(dst, dir_fd), mut=True, detail=os.fspath(src))
        if event == "os.link":
            src, dst, sfd, dfd = args
            return Event("link", _resolve(dst, dfd), _resolve(src, sfd), mut=True)
        if event == "os.truncate":
            path, length = args
            return Event("truncate", _resolve(path), mut=True, detail=str(length))
        if event == "os.utime":
            path, times, ns, dir_fd = args
            return Event("utime", _resolve(path, dir_fd), mut=True)
        if event == "os.chmod":
            path, mode, dir_fd = args
            return Event("chmod", _resolve(path, dir_fd), mut=True)
        if event == "os.chown":
            path, uid, gid, dir_fd = args
            return Event("chown", _resolve(path, dir_fd), mut=True)
        if event == "os.listdir":
            (path,) = args
            return Event("listdir", _resolve(path if path is not None else "."))
        if event == "os.scandir":
            (path,) = args
            return Event("scandir", _resolve(path if path is not None else "."))
    except Exception:
        return None
    return None


_INTERESTING = frozenset(
    (
        "open", "os.mkdir", "os.rmdir", "os.remove", "os.rename", "os.symlink", "os.link",
        "os.truncate", "os.utime", "os.chmod", "os.chown", "os.listdir", "os.scandir",
    )
)


def _hook(event, args):
    s = _session
    if s is None or event not in _INTERESTING:
        return
    if getattr(_tls, "busy", False):
        return
    _tls.busy = True
    try:
        ev = _translate(event, args)
        if ev is None:
            return
        if not s.relevant(ev):
            return
    finally:
        _tls.busy = False
    s.on_event(ev)


def install():
    global _installed
    if not _installed:
        sys.addaudithook(_hook)
        _installed = True


class PolicyViolation(Exception):
    pass


class Session:
    """Active monitoring window.

    roots: directories whose events are observed.
    readonly: trees in which no mutating event may occur (P-readonly).
    contain: if not None, every mutating event under `roots` must lie under one of these (P-contain).
    atomic_names: basenames whose files may only change by rename(tmp -> name) (P-atomic).
    """

    def __init__(self, roots, readonly=(), contain=None, atomic_names=(), on_step=None,
                 record_reads=True):
        self.roots = [os.path.normpath(r) for r in roots]
        self.readonly = [os.path.normpath(r) for r in readonly]
        self.contain = None if contain is None else [os.path.normpath(r) for r in contain]
        self.atomic_names = set(atomic_names)
        self.events = []
        self.policy_hits = []
        self.on_step = on_step  # callable(ev) invoked before the call proceeds (may raise / exit / block)
        self.record_reads = record_reads
        self.lock = threading.Lock()
        self.nmut = 0

    # -- helpers -------------------------------------------------------------
    @staticmethod
    def under(path, root):
        return path == root or path.startswith(root + os.sep)

    def relevant(self, ev):
        for p in ev.paths():
            for r in self.roots:
                if self.under(p, r):
                    return True
        return False

    def on_event(self, ev):
        with self.lock:
            ev.index = len(self.events)
            if ev.mut or self.record_reads:
                self.events.append(ev)
            if ev.mut:
                self.nmut += 1
                self._check_policies(ev)
        if self.on_step is not None:
            self.on_step(ev)

    def _check_policies(self, ev):
        for p in ev.paths():
            for r in self.readonly:
                if self.under(p, r):
                    # a rename whose *source* lies in a read-only tree also mutates it
                    self.policy_hits.append(("readonly", ev.brief(), r))
        if self.contain is not None:
            targets = ev.paths() if ev.kind in ("rename",) else [ev.path]
            for p in targets:
                if p is None:
                    continue
                if any(self.under(p, r) for r in self.roots) and not any(
                    self.under(p, c) for c in self.contain
                ):
                    self.policy_hits.append(("contain", ev.brief(), p))
        if self.atomic_names:
            base = os.path.basename(ev.path) if ev.path else None
            if ev.kind == "open" and base in self.atomic_names:
                self.policy_hits.append(("atomic-open-for-write", ev.brief(), ev.path))
            if ev.kind == "truncate" and base in self.atomic_names:
                self.policy_hits.append(("atomic-truncate", ev.brief(), ev.path))
            if ev.kind in ("rename", "link") and ev.path and base in self.atomic_names:
                # the live file is moved away (only legal as part of a directory move; a
                # *file* rename away from the name leaves a window with no file)
                self.policy_hits.append(("atomic-renamed-away", ev.brief(), ev.path))

    # -- context manager -------------------------------------------------------
    def __enter__(self):
        global _session
        install()
        if _session is not None:
            raise RuntimeError("nested fsmon sessions are not supported")
        _session = self
        return self

    def __exit__(self, *exc):
        global _session
        _session = None
        return False

    # -- views -------------------------------------------------------------
    def mutating(self):
        return [e for e in self.events if e.mut]

    def briefs(self, root=None, only_mut=False):
        return [e.brief(root) for e in self.events if e.mut or not only_mut]


def active():
    return _session
