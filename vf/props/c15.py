"""C15 - sync options are honoured: dry-run writes nothing, deep, exclude, selection, parallel."""

import contextlib
import copy
import io
import logging
import os
import sys

from .. import fsmon, model, sig, syncgen
from .c13 import job_files

PROP = "C15"
LEVEL = "exploration"
MONITORS = ["dry_run_readonly", "dry_run_same_outcome", "deep_detects_same_stat", "exclude_never_written",
            "selection_never_written", "parallel_equals_sequential", "parallel_raises_like_sequential"]
RULE = (
    "Project pairs of the C13 universe, biased towards pairs where something would be copied, cloned or merged "
    "(nested conflicting documents included), where conflicting files share size and mtime, and where excluded "
    "names occur on either side, top level and inside sub-trees. Mode D: a dry run (Project.sync, sync_projects, "
    "Job.sync, sync_jobs) under the FS monitor must issue no mutating FS call under either tree and must return iff "
    "a real run on an identically built pair returns, else raise the same exception class. Mode E: deep=True with "
    "strategy None must raise FileSyncConflict for same-size-same-mtime-different-content files at job and project "
    "level, and with 'always' must overwrite them. Mode X: after a real run no path whose basename matches an exclude "
    "pattern and no job outside the selection was created or modified. Mode P: parallel in {2, True} repeated with "
    "sys.setswitchinterval(1e-6) must leave the same tree as sequential; distinct job completion orders are counted. "
    "Non-trivial and distinct = distinct (mode, pair, options) where the real run would change the destination."
)
RULE += (
    " " + "Added later: symbolic links among source files and follow_symlinks=False in dry runs; a deep sync after a same-size same-mtime change that follows an 'identical' verdict; the parallel run must refuse what the sequential run refuses; collect_stats."
    " In every third case DEBUG logging is effective for the package."
)
ASSUMPTIONS = [
    "Dry-run and real-run outcomes are compared by exception class.",
    "Parallel synchronisation is compared on options without conflicts raised (strategy given or no conflicts).",
]
MANIFEST = {"technique": 'runtime monitoring: FS-call monitor (P-readonly on both trees in dry runs), dry-vs-real differential runs, parallel-vs-sequential with switch-interval stress', "engine": 'fs-call monitor (audit hook)'}
TIME_CAP = {"quick": 80, "thorough": 1500}


def gen_cases(ctx):
    rng = ctx.grng("c15")
    n = ctx.budget(22000, 200000)
    for i in range(n):
        src, dst = syncgen.rand_side(rng), syncgen.rand_side(rng)
        for k in list(src["jobs"])[:1]:
            dst["jobs"].setdefault(k, {"files": syncgen.rand_files(rng), "doc": syncgen.rand_doc(rng)})
        syncgen.correlate(rng, src, dst)
        opts = syncgen.rand_options(rng, src)
        mode = rng.choice(["D", "D", "D", "E", "X", "X", "P"])
        entry = rng.choice(["Project.sync", "sync_projects", "Job.sync", "sync_jobs"])
        par = rng.choice([2, True])
        uncommon = rng.random() < 0.5
        symlinks = rng.choice([0, 0, 0, 1, 2, 3])
        if mode == "P":
            opts["strategy"] = rng.choice(["always", "never", "update", None])
            opts["doc_sync"] = rng.choice(["update", "NO_SYNC", "bykey_regex"])
            opts["keys"] = ["k1", "m.x"]
            # more jobs
            for k in range(4):
                src["jobs"].setdefault(str(k), {"files": syncgen.rand_files(rng), "doc": syncgen.rand_doc(rng)})
        if ctx.take(i):
            yield {"mode": mode, "src": src, "dst": dst, "opts": opts, "entry": entry, "parallel": par,
                   "uncommon": uncommon, "symlinks": symlinks if mode == "D" else 0}


def run_entry(D, S, src_spec, dst_spec, opts, entry, flog, dlog, uncommon=False, **extra):
    """Run a sync through one of the four entry points; returns exception or None."""
    from signac.sync import sync_jobs

    if entry in ("Project.sync", "sync_projects"):
        return syncgen.call_sync(D, S, opts, flog, dlog, entry=entry, **extra)
    common = sorted(set(src_spec["jobs"]) & set(dst_spec["jobs"])) or sorted(src_spec["jobs"])
    only_src = sorted(set(src_spec["jobs"]) - set(dst_spec["jobs"]))
    if uncommon and only_src:
        common = only_src  # the destination job is not initialised yet
    if not common:
        return "skip"
    key = common[0]
    sj, dj = S.open_job(syncgen.sp_of(key)), D.open_job(syncgen.sp_of(key))
    kw = dict(strategy=syncgen.file_strategy(opts["strategy"], flog), exclude=copy.deepcopy(opts["exclude"]),
              doc_sync=syncgen.doc_strategy(opts, dlog), recursive=opts["recursive"])
    kw.update(extra)
    try:
        with contextlib.redirect_stdout(io.StringIO()):
            if entry == "Job.sync":
                dj.sync(sj, **kw)
            else:
                sync_jobs(src=sj, dst=dj, **kw)
        return None
    except Exception as e:  # noqa
        return e


def mode_dry(ctx, case):
    src_spec, dst_spec, opts, entry = case["src"], case["dst"], case["opts"], case["entry"]
    S, D = syncgen.build(ctx, src_spec, "s"), syncgen.build(ctx, dst_spec, "d")
    S2, D2 = syncgen.build(ctx, src_spec, "s2"), syncgen.build(ctx, dst_spec, "d2")
    extra = {}
    if case.get("symlinks"):
        # source jobs hold a symbolic link among their files; the destination may hold a regular file of that name
        ctx.count("dry_runs_with_symlinked_source_files")
        for P, spec, is_src in ((S, src_spec, True), (S2, src_spec, True), (D, dst_spec, False), (D2, dst_spec, False)):
            for key in sorted(spec["jobs"])[:2]:
                job = P.open_job(syncgen.sp_of(key))
                if is_src:
                    sig.write_file(job.fn("ln_target.dat"), "linked content")
                    if not os.path.lexists(job.fn("ln.dat")):
                        os.symlink("ln_target.dat", job.fn("ln.dat"))
                elif case["symlinks"] > 1 and not os.path.lexists(job.fn("ln.dat")):
                    sig.write_file(job.fn("ln.dat"), "regular file in the destination")
        if case["symlinks"] % 2:
            extra["follow_symlinks"] = False
    before = (model.snapshot(S.path, with_mtime=True), model.snapshot(D.path, with_mtime=True))
    with fsmon.Session([S.path, D.path], readonly=[S.path, D.path]) as sess:
        with contextlib.redirect_stdout(io.StringIO()):
            err = run_entry(D, S, src_spec, dst_spec, opts, entry, [], [], uncommon=case.get("uncommon", False), dry_run=True, **extra)
    if err == "skip":
        return
    after = (model.snapshot(S.path, with_mtime=True), model.snapshot(D.path, with_mtime=True))
    ctx.monitor("dry_run_readonly")
    d2_before = model.snapshot(D2.path)
    with contextlib.redirect_stdout(io.StringIO()):
        err2 = run_entry(D2, S2, src_spec, dst_spec, opts, entry, [], [], uncommon=case.get("uncommon", False), **extra)
    would_change = model.snapshot(D2.path) != d2_before
    if sess.policy_hits or before != after:
        evs = [h[1] for h in sess.policy_hits]
        key = "dry-run-writes"
        if any("mkdir(" in e for e in evs) and all(("mkdir(" in e) for e in evs):
            key = "dry-run-creates-directories"
        elif any(model.DOC_FILE in e or model.PDOC_FILE in e for e in evs):
            key = "dry-run-rewrites-document"
        ctx.violation(key, "a dry run issued mutating FS calls / changed a tree",
                      {"events": evs[:6], "diff": model.snap_diff(before[1], after[1]) + model.snap_diff(before[0], after[0]),
                       "opts": opts, "entry": entry, "raised": repr(err)})
        return
    ctx.monitor("dry_run_same_outcome")
    c1 = type(err).__name__ if err is not None else None
    c2 = type(err2).__name__ if err2 is not None else None
    if c1 != c2:
        key = "dry-run-outcome-differs-from-real-run"
        if isinstance(err, TypeError) and "_safe_relpath" in str(err):
            key = "dry-run-typeerror-safe-relpath"
        ctx.violation(key, f"dry run {'raised ' + c1 if c1 else 'returned'}, real run {'raised ' + c2 if c2 else 'returned'}",
                      {"dry": repr(err), "real": repr(err2), "opts": opts, "entry": entry})
        return
    if would_change:
        ctx.distinct("nontrivial", case)


def mode_deep(ctx, case):
    from signac.errors import FileSyncConflict

    src_spec, dst_spec, entry = case["src"], case["dst"], case["entry"]
    opts = dict(case["opts"])
    opts.update(doc_sync="NO_SYNC", selection=None, check_schema=False, exclude=None, recursive=True)
    # which files have the same stat signature but different content?
    same_sig = []
    other_conf = []
    for k in sorted(set(src_spec["jobs"]) & set(dst_spec["jobs"])):
        for rel, (c, mt) in src_spec["jobs"][k]["files"].items():
            d = dst_spec["jobs"][k]["files"].get(rel)
            if d is None or d[0] == c:
                continue
            if len(d[0]) == len(c) and d[1] == mt:
                same_sig.append((k, rel))
            else:
                other_conf.append((k, rel))
    if entry in ("Job.sync", "sync_jobs"):
        common = sorted(set(src_spec["jobs"]) & set(dst_spec["jobs"]))
        if not common:
            return
        same_sig = [x for x in same_sig if x[0] == common[0]]
        other_conf = [x for x in other_conf if x[0] == common[0]]
    if not same_sig:
        return
    for strat in (None, "always"):
        opts["strategy"] = strat
        S, D = syncgen.build(ctx, src_spec, "s"), syncgen.build(ctx, dst_spec, "d")
        err = run_entry(D, S, src_spec, dst_spec, opts, entry, [], [], deep=True)
        if err == "skip":
            return
        ctx.monitor("deep_detects_same_stat")
        if strat is None:
            if not isinstance(err, FileSyncConflict):
                ctx.violation("deep-not-honoured", "deep=True did not report a same-size-same-mtime file with different content as a conflict",
                              {"entry": entry, "same_stat_files": same_sig, "other_conflicts": other_conf, "outcome": repr(err)})
                return
        else:
            if err is not None:
                ctx.count("deep_always_raised_unjudged")
                continue
            for k, rel in same_sig:
                p = os.path.join(D.path, "workspace", model.model_id(syncgen.sp_of(k)), rel)
                with open(p) as f:
                    got = f.read()
                if got != src_spec["jobs"][k]["files"][rel][0]:
                    ctx.violation("deep-not-honoured", "deep=True with strategy 'always' did not overwrite a same-stat differing file",
                                  {"entry": entry, "file": [k, rel]})
                    return
            # the same process goes on: a deep sync of the now identical trees, then the destination file changes again
            # without changing size or time stamp, then another deep sync - which compares contents, not memories
            opts["strategy"] = None
            err_same = run_entry(D, S, src_spec, dst_spec, opts, entry, [], [], deep=True)
            if err_same is None:
                k, rel = same_sig[0]
                p = os.path.join(D.path, "workspace", model.model_id(syncgen.sp_of(k)), rel)
                st = os.stat(p)
                with open(p, "w") as f:
                    f.write(dst_spec["jobs"][k]["files"][rel][0])
                os.utime(p, ns=(st.st_atime_ns, st.st_mtime_ns))
                if os.stat(p).st_size == st.st_size:
                    err_again = run_entry(D, S, src_spec, dst_spec, opts, entry, [], [], deep=True)
                    ctx.monitor("deep_detects_same_stat")
                    if not isinstance(err_again, FileSyncConflict):
                        ctx.violation("deep-trusts-earlier-comparison",
                                      "deep=True did not report a file that changed (same size, same mtime) after an earlier deep sync had found it identical",
                                      {"entry": entry, "file": [k, rel], "outcome": repr(err_again)})
                        return
    ctx.distinct("nontrivial", case)


def mode_exclude(ctx, case):
    src_spec, dst_spec, opts, entry = case["src"], case["dst"], case["opts"], case["entry"]
    if entry in ("Job.sync", "sync_jobs"):
        entry = "Project.sync"
    if opts["exclude"] is None and opts["selection"] is None:
        opts = dict(opts, exclude=r".*_excl\.log")
    S, D = syncgen.build(ctx, src_spec, "s"), syncgen.build(ctx, dst_spec, "d")
    before = model.snapshot(D.path)
    with contextlib.redirect_stdout(io.StringIO()):
        err = run_entry(D, S, src_spec, dst_spec, opts, entry, [], [])
    after = model.snapshot(D.path)
    sel = opts["selection"]
    selected = None if sel is None else {model.model_id(syncgen.sp_of(k)) for k in sel[1]}
    ws = "workspace" + os.sep
    for path in sorted(set(before) | set(after)):
        if before.get(path) == after.get(path) or not path.startswith(ws):
            continue
        parts = path[len(ws):].split(os.sep)
        jid, rest = parts[0], parts[1:]
        if selected is not None:
            ctx.monitor("selection_never_written")
            if jid not in selected:
                ctx.violation("unselected-job-written", "a job outside the selection was created or modified",
                              {"path": path, "opts": opts, "raised": repr(err)})
                return
        if rest and opts["exclude"] is not None:
            ctx.monitor("exclude_never_written")
            # the job's own state point file and document (top level of the job directory) are not data files: every
            # sync route handles them apart from the file comparison, whatever the patterns match
            own = len(rest) == 1 and rest[0] in (model.SP_FILE, model.DOC_FILE)
            if syncgen.excluded(opts, rest[-1]) and not own and after.get(path, ("x",))[0] != "d":
                newly = jid + os.sep + model.SP_FILE not in {p[len(ws):] for p in before if p.startswith(ws)}
                key = "excluded-file-written"
                if newly:
                    key = "exclude-ignored-when-job-is-cloned"
                elif len(rest) > 1:
                    key = "exclude-ignored-inside-copied-subtree"
                ctx.violation(key, "a file matching the exclude pattern was created or modified in the destination",
                              {"path": path, "opts": opts, "entry": entry})
                return
    if before != after:
        ctx.distinct("nontrivial", case)


class _OrderHandler(logging.Handler):
    def __init__(self):
        super().__init__(level=1)
        self.order = []

    def emit(self, record):
        msg = record.getMessage()
        if msg.startswith("Cloned job") or msg.startswith("Synchronized job"):
            self.order.append(msg.split("'")[1][:6])


def mode_parallel(ctx, case):
    src_spec, dst_spec, opts = case["src"], case["dst"], case["opts"]
    opts = dict(opts, selection=None, check_schema=False)
    S, D = syncgen.build(ctx, src_spec, "s"), syncgen.build(ctx, dst_spec, "d")
    err = syncgen.call_sync(D, S, opts, [], [], entry="sync_projects")
    if err is not None:
        # what the sequential run refuses, the parallel run refuses too (it may meet another conflict first)
        from signac.errors import DocumentSyncConflict, FileSyncConflict

        if isinstance(err, (FileSyncConflict, DocumentSyncConflict)):
            S2, D2 = syncgen.build(ctx, src_spec, "sp"), syncgen.build(ctx, dst_spec, "dp")
            err2 = syncgen.call_sync(D2, S2, opts, [], [], entry="sync_projects", parallel=case["parallel"],
                                         collect_stats=bool(len(dst_spec["jobs"]) % 2))
            ctx.monitor("parallel_raises_like_sequential")
            if not isinstance(err2, (FileSyncConflict, DocumentSyncConflict)):
                ctx.violation("parallel-swallows-conflict", "the sequential sync raised a conflict, the parallel one did not",
                              {"sequential": repr(err), "parallel_outcome": repr(err2), "parallel": case["parallel"], "opts": opts})
            return
        ctx.count("sequential_raised_unjudged")
        return
    ref = model.snapshot(D.path)
    old = sys.getswitchinterval()
    logger = logging.getLogger("sync")
    old_level = logger.level
    reps = 3 if ctx.quick else 8
    try:
        sys.setswitchinterval(1e-6)
        logger.setLevel(1)
        for r in range(reps):
            S2, D2 = syncgen.build(ctx, src_spec, "sp"), syncgen.build(ctx, dst_spec, "dp")
            h = _OrderHandler()
            logger.addHandler(h)
            try:
                err2 = syncgen.call_sync(D2, S2, opts, [], [], entry="sync_projects", parallel=case["parallel"],
                                         collect_stats=bool(len(dst_spec["jobs"]) % 2))
            finally:
                logger.removeHandler(h)
            ctx.monitor("parallel_equals_sequential")
            got = model.snapshot(D2.path)
            ctx.distinct("completion_orders", h.order)
            if err2 is not None or got != ref:
                ctx.violation("parallel-differs-from-sequential", "parallel sync left a different destination tree (or raised)",
                              {"raised": repr(err2), "diff": model.snap_diff(ref, got), "parallel": case["parallel"],
                               "order": h.order, "opts": opts})
                return
    finally:
        sys.setswitchinterval(old)
        logger.setLevel(old_level)
    ctx.distinct("nontrivial", case)


def run_case(ctx, case):
    {"D": mode_dry, "E": mode_deep, "X": mode_exclude, "P": mode_parallel}[case["mode"]](ctx, case)
    ctx.sample({"mode": case["mode"], "entry": case["entry"], "opts": case["opts"],
                "src_jobs": sorted(case["src"]["jobs"]), "dst_jobs": sorted(case["dst"]["jobs"])})
