#!/bin/sh
# usage: tools_mut.sh <PROP> <file-under-/repo> <python-regex-old> <new>   (applies, runs quick check, reverts)
PROP="$1"; F="$2"; OLD="$3"; NEW="$4"
/venv/bin/python - "$F" "$OLD" "$NEW" <<'PY'
import sys,re
f,old,new=sys.argv[1:4]
s=open('/repo/'+f).read()
assert old in s, "pattern not found"
s=s.replace(old,new,1)
open('/repo/'+f,'w').write(s)
PY
[ $? -eq 0 ] || exit 9
git -C /repo diff --stat | tail -1
"$(dirname "$0")/../check" "$PROP" ${TIER:+--tier $TIER} 2>&1 | grep -v '^  key' | cut -c1-220 | sort | uniq -c | sort -rn | head -12
grep -h '"key"' replays/$PROP/*.json 2>/dev/null | sort | uniq -c | head
git -C /repo checkout -- .
rm -rf replays
