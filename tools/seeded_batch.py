#!/venv/bin/python
"""Collect a round of sub-agent candidates from /tmp/wt/<ID><suffix>/_seeded into seeded/<ID>-<suffix>,
confirm them in parallel scratch worktrees, record the confirmation in meta.json and drop the agents' worktrees.
usage: tools/seeded_batch.py <suffix> [ID ...]"""
import json, os, re, shutil, subprocess, sys, concurrent.futures as cf
HERE = os.path.dirname(os.path.dirname(os.path.abspath(__file__)))
suf = sys.argv[1]
ids = sys.argv[2:] or ["C%02d" % i for i in range(1, 21)]
todo = []
for pid in ids:
    src = f"/tmp/wt/{pid}{suf}/_seeded"
    if not os.path.isfile(os.path.join(src, "patch.diff")):
        print(pid, "no candidate"); continue
    dst = os.path.join(HERE, "seeded", f"{pid}-{suf}")
    os.makedirs(dst, exist_ok=True)
    for fn in ("patch.diff", "demo.py", "meta.json"):
        shutil.copy(os.path.join(src, fn), dst)
    demo = open(os.path.join(dst, "demo.py")).read()
    demo = "\n".join(l for l in demo.splitlines() if not re.search(r'assert .*startswith\(["\']/tmp/wt', l)) + "\n"
    open(os.path.join(dst, "demo.py"), "w").write(demo)
    todo.append((pid, dst))
def conf(item):
    pid, dst = item
    r = subprocess.run([os.path.join(HERE, "tools", "seeded.py"), "confirm", dst], capture_output=True, text=True)
    try:
        return pid, dst, json.loads(r.stdout)
    except Exception:
        return pid, dst, {"confirmed": False, "error": (r.stdout + r.stderr)[-500:]}
with cf.ThreadPoolExecutor(max_workers=10) as ex:
    for pid, dst, c in ex.map(conf, todo):
        m = json.load(open(os.path.join(dst, "meta.json")))
        m["property"] = pid
        m["confirmed"] = {"how": "tools/seeded.py confirm: fresh scratch worktree of /repo HEAD; demo.py exit 0 unchanged, non-zero with patch.diff applied; repository tests (tests/test_shell.py deselected, it fails in the baseline) pass with the patch",
                          "demo_unchanged_exit": c.get("demo_unchanged_exit"), "demo_changed_exit": c.get("demo_changed_exit"), "tests": c.get("tests_tail"), "ok": c.get("confirmed")}
        json.dump(m, open(os.path.join(dst, "meta.json"), "w"), indent=1)
        print(pid, c.get("confirmed"), c.get("apply"), c.get("demo_unchanged_exit"), c.get("demo_changed_exit"), c.get("tests_tail"), (c.get("apply_err") or c.get("error") or "")[:120])
for pid, _dst in todo:  # only those whose candidate was collected: an agent may still be writing in the others
    subprocess.run(["git", "-C", "/repo", "worktree", "remove", "--force", f"/tmp/wt/{pid}{suf}"], capture_output=True)
subprocess.run(["git", "-C", "/repo", "worktree", "prune"])
