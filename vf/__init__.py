"""Runtime-monitoring harness for the signac properties C01..C20 (see DESIGN.md)."""
