"""C09 - state point corruption is always detected, never accepted, and repairable."""

import copy
import json
import os
import shutil

from .. import model, sig

PROP = "C09"
LEVEL = "fault_enumeration"
MONITORS = ["check_names_exactly_damaged", "open_by_id_never_foreign", "repair_restores_recoverable",
            "repair_keeps_data", "benign_changes_pass"]
RULE = (
    "Projects of 2-6 jobs whose state point files have assorted shapes (compact as written by signac, pretty-"
    "printed, raw UTF-8 vs escaped, nested, floats, {}); every truncation offset and every (offset x 12 replacement "
    "byte classes) single-byte change of each shape, deletion, replacement by other valid JSON ({}, [], null, another "
    "job's state point, a foreign state point, the same value re-spelt, 1 -> 1.0), directory rename to a free id and "
    "swaps of two directories, applied to subsets of up to 3 jobs, with and without a persistent cache. An "
    "independent classifier (raw bytes -> strict UTF-8 JSON -> canonical hash vs directory name) decides which jobs "
    "are damaged; check() must name exactly those; open-by-id in fresh sessions (with / without cache file) yields an "
    "exception or a state point hashing to the id, through statepoint(), sp and cached_statepoint, each asked again "
    "after a refusal; repair() must restore every recoverable damaged job and leave every "
    "document / data byte unchanged (tracked by marker files). Non-trivial and distinct = distinct (shape, damage) "
    "pairs that actually changed the parsed value or broke the file."
)
RULE += (
    " " + 'Added later: every accessor asked again, also on a pickle round trip / copy / deepcopy of the refused handle; a session attempting update_cache twice over the damage; repair() given a one-shot iterator; single- and multi-job damage cases alternate; every third cache case has repair(job_ids=[...]) done by a handle that was already in use before another session wrote the persistent cache.'
    " In every third case DEBUG logging is effective for the package."
)
ASSUMPTIONS = [
    "Recoverable = id present in the persistent cache, or the file parses to a mapping whose hash names a free directory.",
    "Two swapped directories without a cache are not recoverable by this definition (correct names are occupied).",
]
MANIFEST = {"technique": 'runtime monitoring: fault enumeration over state point bytes; independent damage classifier as oracle for check()/open/repair', "engine": 'reference-model monitor'}
TIME_CAP = {"quick": 70, "thorough": 1500}

CLASSES = [b"7", b"q", b'"', b"{", b"}", b"[", b",", b":", b" ", b"-", b"e", b"\x00", b"\x80"]


def shapes():
    """(state point, file bytes) pairs; file bytes always parse to the state point."""
    sps = [
        {"a": 1},
        {"a": 10, "b": "x"},
        {"k é": "ü", "a": 1.5},
        {"n": {"x": [1, 2.0, None, True]}, "a": -3},
        {"a": 1e-07, "b": 100},
        {},
        {"a": "1", "b": [1, [2, 3]]},
    ]
    out = []
    for sp in sps:
        out.append((sp, json.dumps(sp).encode(), "compact"))
        out.append((sp, json.dumps(sp, indent=2).encode() + b"\n", "pretty"))
        if any(ord(c) > 127 for c in json.dumps(sp, ensure_ascii=False)):
            out.append((sp, json.dumps(sp, ensure_ascii=False).encode("utf-8"), "raw-utf8"))
    return out


def _gen_cases_ordered(ctx):
    rng = ctx.grng("c09")
    shp = shapes()
    i = 0
    # exhaustive single-job damage on each shape
    dmg = []
    for si, (sp, data, style) in enumerate(shp):
        for off in range(len(data) + 1):
            dmg.append((si, {"kind": "truncate", "off": off}))
        for off in range(len(data)):
            for c in range(len(CLASSES)):
                dmg.append((si, {"kind": "byte", "off": off, "cls": c}))
        for k in ("delete", "empty-obj", "empty-list", "null", "foreign", "respell", "int2float", "rename"):
            dmg.append((si, {"kind": k}))
    if ctx.quick:
        rng.shuffle(dmg)
        dmg = dmg[:15000]
    per = 3
    for k in range(0, len(dmg), per):
        chunk = dmg[k:k + per]
        if ctx.take(i):
            # each damaged job gets its own shape; fill up with undamaged jobs
            jobs = []
            damage = []
            used = set()
            for si, d in chunk:
                sp = shp[si][0]
                jid = model.model_id(sp)
                if jid in used:
                    continue
                used.add(jid)
                jobs.append(si)
                damage.append(dict(d, job=len(jobs) - 1))
            extra = [x for x in range(len(shp)) if model.model_id(shp[x][0]) not in used]
            rng2 = ctx.rng(f"fill{k}")
            for x in rng2.sample(extra, min(len(extra), rng2.randint(1, 3))):
                if model.model_id(shp[x][0]) not in used:
                    used.add(model.model_id(shp[x][0]))
                    jobs.append(x)
            yield {"jobs": jobs, "damage": damage, "cache": (k // per) % 2 == 0, "grp": "single"}
        i += 1
    # multi-job damage incl. swaps and cross-job replacement
    for _ in range(ctx.budget(3000, 40000)):
        n = rng.randint(2, 6)
        idx = []
        used = set()
        for x in rng.sample(range(len(shp)), len(shp)):
            jid = model.model_id(shp[x][0])
            if jid not in used and len(idx) < n:
                used.add(jid)
                idx.append(x)
        damage = []
        victims = rng.sample(range(len(idx)), min(len(idx), rng.randint(1, 3)))
        for v in victims:
            kind = rng.choice(["truncate", "byte", "delete", "other-job", "swap", "rename", "foreign", "respell",
                               "int2float", "empty-list", "null"])
            d = {"kind": kind, "job": v}
            data = shp[idx[v]][1]
            if kind == "truncate":
                d["off"] = rng.randrange(len(data) + 1)
            elif kind == "byte":
                d["off"] = rng.randrange(len(data))
                d["cls"] = rng.randrange(len(CLASSES))
            elif kind in ("other-job", "swap"):
                others = [o for o in range(len(idx)) if o != v]
                if not others:
                    continue
                d["other"] = rng.choice(others)
            damage.append(d)
        if ctx.take(i):
            yield {"jobs": idx, "damage": damage, "cache": rng.random() < 0.5}
        else:
            rng.random()
        i += 1



class _Everything:
    """ctx stand-in for building the complete, ordered case list (sharding is applied afterwards)."""

    def __init__(self, ctx):
        self._ctx = ctx

    def take(self, i):
        return True

    def __getattr__(self, name):
        return getattr(self._ctx, name)


def gen_cases(ctx):
    # single-job and multi-job damage alternate, so that a time cap (a loaded machine) thins both kinds evenly
    cases = list(_gen_cases_ordered(_Everything(ctx)))
    single = [c for c in cases if c.get("grp") == "single"]
    multi = [c for c in cases if c.get("grp") != "single"]
    merged = []
    for k in range(max(len(single), len(multi))):
        if k < len(multi):
            merged.append(multi[k])
        if k < len(single):
            merged.append(single[k])
    # every third case with a persistent cache has the repair done, with explicit ids, by a handle that was in use
    # before another session wrote that cache (no random draw: the other cases stay exactly as they were)
    nc = 0
    for c in merged:
        if c["cache"]:
            c["lived"] = nc % 3 == 0
            nc += 1
    for i, c in enumerate(merged):
        if ctx.take(i):
            yield c

def classify_dir(ws, name):
    """None if the directory validates, else a reason string."""
    fn = os.path.join(ws, name, model.SP_FILE)
    try:
        with open(fn, "rb") as f:
            raw = f.read()
    except FileNotFoundError:
        return "missing"
    try:
        val = json.loads(raw.decode("utf-8"))
    except ValueError:
        return "unparsable"
    try:
        h = model.model_id(val)
    except ValueError:
        return "non-finite"
    return None if h == name else "hash-mismatch"


def parsed_or_none(ws, name):
    try:
        with open(os.path.join(ws, name, model.SP_FILE), "rb") as f:
            return json.loads(f.read().decode("utf-8"))
    except Exception:
        return None


def data_by_marker(ws):
    """{marker: snapshot of non-state-point files} for every directory in the workspace."""
    out = {}
    for name in sorted(os.listdir(ws)):
        d = os.path.join(ws, name)
        if not os.path.isdir(d):
            continue
        snap = model.snapshot(d)
        mk = snap.get("marker.txt")
        key = mk[1].decode() if mk else "nomarker:" + name
        out[key] = {k: v for k, v in snap.items() if k != model.SP_FILE}
    return out


def presented_statepoints(job):
    """Every state point value the handle is willing to present, asked through each accessor and asked again
    after a refusal: a handle that raised once must not hand out an unvalidated value on the next access."""
    import pickle

    out = []

    def ask(h, tag):
        for how, get in (("statepoint()", lambda: model.plain(h.statepoint())),
                         ("cached_statepoint", lambda: model.plain(dict(h.cached_statepoint))),
                         ("sp", lambda: model.plain(dict(h.sp)))):
            try:
                out.append((f"{how}#{tag}", get()))
            except Exception:
                pass

    for rnd in range(2):
        ask(job, rnd)
    # ... nor may a copy of the handle taken after the refusal (handed to a worker, say) present one
    for tag, dup in (("pickle", lambda: pickle.loads(pickle.dumps(job))), ("copy", lambda: copy.copy(job)),
                     ("deepcopy", lambda: copy.deepcopy(job))):
        try:
            h = dup()
        except Exception:
            continue
        ask(h, tag)
    return out


def foreign(values, name):
    for how, v in values:
        try:
            if model.model_id(v) != name:
                return how, v
        except Exception:
            return how, v
    return None


def run_case(ctx, case):
    import signac
    from signac.errors import JobsCorruptedError

    shp = shapes()
    project = sig.new_project(ctx, "c9")
    path, ws = project.path, project.workspace
    jobs = []
    for k, si in enumerate(case["jobs"]):
        sp, data, style = shp[si]
        job = project.open_job(copy.deepcopy(sp)).init()
        with open(job.fn(model.SP_FILE), "wb") as f:  # the chosen spelling of the same value
            f.write(data)
        job.document["marker"] = k
        job.document["nested"] = {"v": [k, "é"]}
        sig.write_file(job.fn("marker.txt"), f"marker-{k}")
        sig.write_file(job.fn("sub/data.bin"), bytes([k]) * 40)
        jobs.append(job.id)
    lived = None
    if case["cache"] and case.get("lived"):
        # a long-lived session: its handle has been used (so it has looked for the persistent cache, found none)
        # before some other session writes that cache
        lived = signac.Project(path)
        lived.open_job({"never": "initialised"})
    if case["cache"]:
        signac.Project(path).update_cache()
    cache_ids = set(jobs) if case["cache"] else set()

    # ---- apply damage
    nontrivial = []
    for d in case["damage"]:
        jid = jobs[d["job"]]
        fn = os.path.join(ws, jid, model.SP_FILE)
        if not os.path.exists(fn):
            continue  # directory already renamed/swapped by an earlier damage of this case
        sp, data, style = shp[case["jobs"][d["job"]]]
        kind = d["kind"]
        if kind == "truncate":
            new = data[: d["off"]]
        elif kind == "byte":
            c = CLASSES[d["cls"]]
            new = data[: d["off"]] + c + data[d["off"] + 1:]
        elif kind == "delete":
            os.remove(fn)
            new = None
        elif kind == "empty-obj":
            new = b"{}"
        elif kind == "empty-list":
            new = b"[]"
        elif kind == "null":
            new = b"null"
        elif kind == "foreign":
            new = json.dumps({"foreign": d["job"], "zz": [1]}).encode()
        elif kind == "respell":
            new = json.dumps(dict(reversed(list(sp.items()))), indent=1, separators=(" ,", " : ")).encode()
        elif kind == "int2float":
            txt = json.dumps(sp)
            new = txt.replace(": 1,", ": 1.0,").replace(": 1}", ": 1.0}").replace(": 10,", ": 10.0,").encode()
        elif kind == "other-job":
            new = shp[case["jobs"][d["other"]]][1]
        elif kind == "rename":
            free = model.model_id({"free-name-for": jid})
            os.replace(os.path.join(ws, jid), os.path.join(ws, free))
            new = None
        elif kind == "swap":
            oid = jobs[d["other"]]
            if not os.path.isdir(os.path.join(ws, oid)):
                continue
            tmp = os.path.join(ws, "swap_tmp")
            os.replace(os.path.join(ws, jid), tmp)
            os.replace(os.path.join(ws, oid), os.path.join(ws, jid))
            os.replace(tmp, os.path.join(ws, oid))
            new = None
        else:
            raise ValueError(kind)
        if new is not None:
            with open(fn, "wb") as f:
                f.write(new)
        nontrivial.append([shp[case["jobs"][d["job"]]][2], case["jobs"][d["job"]], {k: v for k, v in d.items() if k != "job"}])

    # ---- independent classification
    names = sorted(n for n in os.listdir(ws) if model.is_id(n) and os.path.isdir(os.path.join(ws, n)))
    reason = {n: classify_dir(ws, n) for n in names}
    damaged = {n for n, r in reason.items() if r is not None}
    for nt in nontrivial:
        ctx.distinct("nontrivial", nt)
    if not damaged:
        ctx.monitor("benign_changes_pass")

    # ---- check()
    fresh = signac.Project(path)
    ctx.monitor("check_names_exactly_damaged")
    try:
        fresh.check()
        named = set()
        raised = None
    except JobsCorruptedError as e:
        named = set(e.job_ids)
        raised = e
    except Exception as e:  # noqa
        ctx.violation("check-raises-other-exception", f"check() raised {type(e).__name__}: {e}",
                      {"damage": case["damage"], "reasons": reason})
        return
    if named != damaged:
        key = "check-misses-damaged-job" if damaged - named else "check-flags-valid-job"
        ctx.violation(key, "check() does not name exactly the damaged jobs",
                      {"named": sorted(named), "damaged": {n: reason[n] for n in sorted(damaged)},
                       "damage": case["damage"], "cache": case["cache"]})

    # ---- open by id never yields a foreign state point (with and without cache file)
    nocache = ctx.scratch("nc")
    shutil.rmtree(nocache)
    shutil.copytree(path, nocache, symlinks=True)
    try:
        os.remove(os.path.join(nocache, model.CACHE_FILE))
    except FileNotFoundError:
        pass
    # a session that tried (twice) to refresh the persistent cache over the damaged workspace must not have
    # laundered the damaged state points into it
    ucache = ctx.scratch("uc")
    shutil.rmtree(ucache)
    shutil.copytree(path, ucache, symlinks=True)
    U = signac.Project(ucache)
    for _ in range(2):
        sig.exc_name(U.update_cache)
    for root in (path, nocache, ucache):
        for name in names:
            for how in ("byid", "iter"):
                p2 = signac.Project(root)
                ctx.monitor("open_by_id_never_foreign")
                try:
                    if how == "byid":
                        job = p2.open_job(id=name)
                    else:
                        job = [j for j in p2 if j.id == name][0]
                except Exception:
                    continue
                vals = presented_statepoints(job)
                if vals:
                    ctx.count("statepoints_presented", len(vals))
                bad = foreign(vals, name)
                if bad:
                    ctx.violation("corrupted-statepoint-accepted",
                                  "opening a job yielded a state point whose hash differs from its id",
                                  {"id": name, "accessor": bad[0], "statepoint": bad[1], "how": how,
                                   "with_cache_file": root == path, "after_update_cache_attempts": root == ucache,
                                   "reason": reason[name]})
    shutil.rmtree(nocache, ignore_errors=True)
    shutil.rmtree(ucache, ignore_errors=True)

    # ---- repair
    if not damaged:
        return
    if any(r == "non-finite" for r in reason.values()):
        ctx.count("non_finite_value_repair_unjudged")  # Infinity/NaN are not JSON: outside the stated damage classes
        return
    before = data_by_marker(ws)
    recoverable = {}
    for n in damaged:
        if n in cache_ids:
            recoverable[n] = ("cache", n)
        else:
            val = parsed_or_none(ws, n)
            if isinstance(val, dict):
                h = model.model_id(val)
                if not os.path.exists(os.path.join(ws, h)):
                    recoverable[n] = ("rename", h)
    # two misnamed directories must not compete for one free name
    targets = [t for _, t in recoverable.values()]
    if len(targets) != len(set(targets)):
        return
    rp = signac.Project(path)
    try:
        if lived is not None:
            ctx.count("repair_with_ids_by_handle_older_than_the_cache")
            rp = lived
            rp.repair(job_ids=sorted(names))
        elif len(damaged) % 2:
            rp.repair()
        else:
            # the ids to repair are documented as an iterable: here one that can be walked only once
            ctx.count("repair_given_one_shot_iterable")
            rp.repair(job_ids=iter(sorted(names)))
        rerr = None
    except JobsCorruptedError as e:
        rerr = e
    except Exception as e:  # noqa
        ctx.violation("repair-raises-other-exception", f"repair() raised {type(e).__name__}: {e}",
                      {"damage": case["damage"], "reasons": {n: reason[n] for n in damaged}})
        return
    ctx.monitor("repair_restores_recoverable")
    problems = []
    for n, (how, target) in recoverable.items():
        r = classify_dir(ws, target) if os.path.isdir(os.path.join(ws, target)) else "absent"
        if r is not None:
            problems.append((n, how, target, r))
    if problems:
        unrec = damaged - set(recoverable)
        key = "repair-leaves-recoverable-job-damaged"
        if unrec and rerr is not None:
            key = "repair-aborts-at-unrecoverable-job"
        ctx.violation(key, "repair() left a recoverable job damaged",
                      {"problems": problems, "unrecoverable": {n: reason[n] for n in unrec}, "cache": case["cache"],
                       "damage": case["damage"], "repair_error": repr(rerr)})
    all_rec = damaged <= set(recoverable)
    try:
        signac.Project(path).check()
        passes = True
    except JobsCorruptedError:
        passes = False
    if all_rec and not passes and not problems:
        ctx.violation("check-fails-after-full-repair", "all damaged jobs were recoverable but check() still fails",
                      {"damage": case["damage"]})
    if all_rec and rerr is not None and not problems:
        ctx.violation("repair-raises-although-all-recovered", "repair() raised although every damaged job was restored",
                      {"error": repr(rerr)})
    ctx.monitor("repair_keeps_data")
    after = data_by_marker(ws)
    if before != after:
        diffs = []
        for k in sorted(set(before) | set(after)):
            if before.get(k) != after.get(k):
                diffs.append((k, model.snap_diff(before.get(k, {}), after.get(k, {}))))
        ctx.violation("repair-changed-document-or-data", "repair() changed document / data files",
                      {"diffs": diffs[:4], "damage": case["damage"]})
    # the repairing session goes on and refreshes the persistent cache; a later session must still never be
    # handed a state point that does not hash to the id it asked for
    sig.exc_name(rp.update_cache)
    names2 = sorted(n for n in os.listdir(ws) if model.is_id(n) and os.path.isdir(os.path.join(ws, n)))
    for name in names2:
        p3 = signac.Project(path)
        ctx.monitor("open_by_id_never_foreign")
        try:
            job = p3.open_job(id=name)
        except Exception:
            continue
        bad = foreign(presented_statepoints(job), name)
        if bad:
            ctx.violation("corrupted-statepoint-accepted-after-repair-and-update_cache",
                          "after repair() and update_cache() in one session, a fresh session is handed a state point whose hash differs from the id",
                          {"id": name, "accessor": bad[0], "statepoint": bad[1], "reason_before_repair": reason.get(name),
                           "damage": case["damage"], "cache": case["cache"]})
            return
    ctx.sample({"damage": case["damage"], "cache": case["cache"], "damaged": {n: reason[n] for n in sorted(damaged)},
                "recoverable": {n: list(v) for n, v in recoverable.items()}})
