"""C20 - incompatible schema versions are refused, and migration preserves every job."""

import contextlib
import copy
import io
import itertools
import os
import pathlib
import shutil

from .. import fsmon, model, sig

PROP = "C20"
LEVEL = "exploration"
MONITORS = ["refused_and_untouched", "migration_preserves_jobs", "migration_refusal_unchanged", "second_migration_noop",
            "uptodate_migration_noop"]
RULE = (
    "Exhaustive product of declared schema versions {absent, 0, 1, 3, 10 (and 2 as the control)} x layout (current "
    "'.signac/config', legacy 'signac.rc') x project name (default 'None', plain, with spaces and punctuation) x "
    "workspace_dir (absent, 'workspace', relative custom, nested custom, custom colliding with an existing "
    "'workspace') x optional legacy cache / shell-history files x 0-5 jobs with documents and nested files x project "
    "document. For every declared version other than 2, Project(), get_project() (also from a sub-directory) and "
    "init_project() run under the FS monitor and must raise IncompatibleSchemaVersion without any mutating FS call. "
    "Every legacy project is migrated with apply_migrations: the result must open normally with the same ids, "
    "typed-equal state points and documents, byte-identical files, the non-default name kept in the project "
    "document and cache/history moved; the documented refusal (workspace collision) must leave the tree unchanged; "
    "a second migration and a migration of an up-to-date project must be no-ops. Non-trivial and distinct = distinct "
    "configurations with at least one job."
)
RULE += (
    " " + "Added later: nested custom workspace named 'workspace'; a same-size same-mtime rewrite of a configuration this process opened before; pathlib.Path roots."
    " In every third case DEBUG logging is effective for the package."
)
ASSUMPTIONS = [
    "Legacy configurations are written with the vendored ConfigObj writer, as signac 1.x did.",
    "A legacy 'signac.rc' that itself declares the current version is not a legal configuration and is not generated.",
    "For a version-0 project whose migration is refused at the 1->2 step, the recorded version bump to 1 in signac.rc "
    "is accepted; everything else must be unchanged.",
]
MANIFEST = {"technique": 'runtime monitoring: FS-call monitor (P-readonly on refused projects) + snapshot / content oracle around migrations, exhaustive over the configuration product', "engine": 'fs-call monitor (audit hook)'}
TIME_CAP = {"quick": 60, "thorough": 600}

NAMES = ["None", "plain", "my project, v2!", "name with 'quotes' # and = sign"]
WSDIRS = ["absent", "workspace", "ws_custom", "data/ws", "data/workspace", "collide", "collide_empty"]
VERSIONS = ["absent", "0", "1", "3", "10"]


def EXHAUSTIVE(tier):
    return True


def gen_cases(ctx):
    i = 0
    combos = []
    for ver in VERSIONS + ["2"]:
        for layout in ("v2", "legacy"):
            if layout == "legacy" and ver == "2":
                continue
            for name in NAMES:
                for ws in WSDIRS:
                    if layout == "v2" and (ws != "absent" or name != "None"):
                        continue
                    for extras in (0, 1, 2, 3):
                        for njobs in (0, 1, 3, 5):
                            combos.append((ver, layout, name, ws, extras, njobs))
    for c in combos:
        if ctx.take(i):
            yield {"ver": c[0], "layout": c[1], "name": c[2], "ws": c[3], "extras": c[4], "njobs": c[5]}
        i += 1


def build(ctx, case):
    """Create the configured project directory. Returns (root, expected jobs content, project doc)."""
    import signac
    from signac._vendor.configobj import ConfigObj

    p = sig.new_project(ctx, "m")
    root = p.path
    for k in range(case["njobs"]):
        job = p.open_job({"a": k, "b": {"c": [k, "é"]}}).init()
        job.document["k"] = k
        job.document["nested"] = {"v": 1.5}
        sig.write_file(job.fn("data.txt"), f"data-{k}")
        sig.write_file(job.fn("sub/x.bin"), bytes([k]) * 20)
    pdoc = {}
    if case["extras"] & 2:
        p.document["owner"] = "me"
        pdoc = {"owner": "me"}
    want = model.raw_jobs(root)
    if case["extras"] & 1:
        p.update_cache()
    if case["layout"] == "v2":
        fn_cfg = os.path.join(root, ".signac", "config")
        st = os.stat(fn_cfg)
        cfg = ConfigObj(fn_cfg)
        if case["ver"] == "absent":
            cfg.pop("schema_version", None)
        else:
            cfg["schema_version"] = case["ver"]
        cfg.write()
        if case["njobs"] % 2 and os.stat(fn_cfg).st_size == st.st_size:
            # this process has opened the project while it declared version 2; the edit keeps the file's size and, on a
            # coarse clock or with a time-preserving copy, its time stamp
            os.utime(fn_cfg, ns=(st.st_atime_ns, st.st_mtime_ns))
            ctx.count("config_rewritten_with_same_size_and_mtime")
        if case["njobs"] == 0:
            shutil.rmtree(os.path.join(root, "workspace"))  # a refused project must not get one created either
        return root, want, pdoc
    # legacy layout
    cache = os.path.join(root, model.CACHE_FILE)
    if os.path.exists(cache):
        os.replace(cache, os.path.join(root, ".signac_sp_cache.json.gz"))
    shutil.rmtree(os.path.join(root, ".signac"))
    if case["extras"] & 1:
        with open(os.path.join(root, ".signac_shell_history"), "w") as f:
            f.write("project.find_jobs()\n")
    ws = case["ws"]
    wsname = {"absent": None, "workspace": "workspace", "ws_custom": "ws_custom", "data/ws": "data/ws", "data/workspace": "data/workspace",
              "collide": "ws_custom", "collide_empty": "ws_custom"}[ws]
    if wsname not in (None, "workspace"):
        os.makedirs(os.path.dirname(os.path.join(root, wsname)) or root, exist_ok=True)
        os.replace(os.path.join(root, "workspace"), os.path.join(root, wsname))
        if ws.startswith("collide"):
            os.makedirs(os.path.join(root, "workspace"))
            if ws == "collide":
                with open(os.path.join(root, "workspace", "something.txt"), "w") as f:
                    f.write("in the way")
    cfg = ConfigObj()
    cfg.filename = os.path.join(root, "signac.rc")
    cfg["project"] = case["name"]
    if wsname is not None:
        cfg["workspace_dir"] = wsname
    if case["ver"] != "absent":
        cfg["schema_version"] = case["ver"]
    cfg.write()
    return root, want, pdoc


def jobs_under(root, wsname):
    """raw jobs of a (possibly legacy) layout."""
    tmp_root = root
    ws = os.path.join(root, wsname)
    out = {}
    if not os.path.isdir(ws):
        return out
    for name in sorted(os.listdir(ws)):
        d = os.path.join(ws, name)
        if model.is_id(name) and os.path.isdir(d):
            snap = model.snapshot(d)
            out[name] = snap
    return out


def run_case(ctx, case):
    import signac
    from signac.errors import IncompatibleSchemaVersion
    from signac.migration import apply_migrations

    root, want, pdoc = build(ctx, case)
    ver = case["ver"]
    old_cwd = os.getcwd()
    # ------------------------------------------------------------------ refusal
    if ver != "2":
        before = model.snapshot(root, with_mtime=True)
        sub = os.path.join(root, "some", "subdir")
        calls = [
            ("Project", lambda: signac.Project(root)),
            ("get_project", lambda: signac.get_project(root)),
            ("get_project-nosearch", lambda: signac.get_project(root, search=False)),
            ("init_project", lambda: signac.init_project(root)),
            ("Project.get_project", lambda: signac.Project.get_project(root)),
            # the same directory given as a path object
            ("Project-pathlib", lambda: signac.Project(pathlib.Path(root))),
            ("get_project-pathlib", lambda: signac.get_project(pathlib.Path(root))),
            ("init_project-pathlib", lambda: signac.init_project(pathlib.Path(root))),
        ]
        for name, fn in calls:
            with fsmon.Session([root], readonly=[root]) as s:
                with contextlib.redirect_stderr(io.StringIO()):
                    ret, err = sig.exc_name(fn)
            ctx.monitor("refused_and_untouched")
            after = model.snapshot(root, with_mtime=True)
            refused = isinstance(err, IncompatibleSchemaVersion) or (
                # with search=False a directory without a current-layout configuration is simply "no project here"
                name == "get_project-nosearch" and case["layout"] == "legacy" and isinstance(err, LookupError))
            if not refused or s.policy_hits or before != after:
                key = "incompatible-version-not-refused"
                if s.policy_hits or before != after:
                    key = "refused-project-was-modified"
                ctx.violation(key, f"{name}() on a project declaring schema version {ver} ({case['layout']} layout)",
                              {"outcome": repr(err) if err is not None else "returned", "events": [h[1] for h in s.policy_hits][:4],
                               "diff": model.snap_diff(before, after), "case": case})
                return
        # from a sub-directory (created by the test, so snapshot again)
        os.makedirs(sub)
        before = model.snapshot(root, with_mtime=True)
        try:
            os.chdir(sub)
            with fsmon.Session([root], readonly=[root]) as s:
                ret, err = sig.exc_name(signac.get_project)
        finally:
            os.chdir(old_cwd)
        ctx.monitor("refused_and_untouched")
        if not isinstance(err, IncompatibleSchemaVersion) or s.policy_hits or model.snapshot(root, with_mtime=True) != before:
            ctx.violation("incompatible-version-not-refused", "get_project() from a sub-directory of an incompatible project",
                          {"outcome": repr(err) if err is not None else getattr(ret, "path", None), "case": case})
            return
        shutil.rmtree(os.path.join(root, "some"))
    # ------------------------------------------------------------------ migration
    if case["layout"] == "v2" and ver != "2":
        if case["njobs"]:
            ctx.distinct("nontrivial", case)
        return  # only legacy layouts (and the up-to-date control) are migrated
    before = model.snapshot(root)
    with contextlib.redirect_stderr(io.StringIO()):
        _, merr = sig.exc_name(apply_migrations, root)
    after = model.snapshot(root)
    if ver == "2":
        ctx.monitor("uptodate_migration_noop")
        if merr is not None or after != before:
            ctx.violation("migration-of-current-project-not-noop", "apply_migrations on an up-to-date project changed it",
                          {"err": repr(merr), "diff": model.snap_diff(before, after)})
        return
    if ver in ("3", "10"):
        # newer than supported: must refuse and leave the tree alone
        ctx.monitor("migration_refusal_unchanged")
        if merr is None or after != before:
            ctx.violation("migration-of-newer-schema-not-refused", "apply_migrations on a newer schema did not refuse cleanly",
                          {"err": repr(merr), "diff": model.snap_diff(before, after)})
        return
    if case["ws"].startswith("collide"):
        ctx.monitor("migration_refusal_unchanged")
        b = {k: v for k, v in before.items() if k != "signac.rc"}
        a = {k: v for k, v in after.items() if k != "signac.rc"}
        if merr is None or a != b:
            ctx.violation("workspace-collision-not-refused-cleanly",
                          "migration with a custom workspace colliding with an existing 'workspace' must raise and change nothing",
                          {"err": repr(merr), "diff": model.snap_diff(b, a), "case": case})
        elif ver == "1" and after != before:
            ctx.violation("workspace-collision-not-refused-cleanly", "signac.rc changed although the version-1 migration was refused",
                          {"diff": model.snap_diff(before, after)})
        return
    ctx.monitor("migration_preserves_jobs")
    if merr is not None:
        ctx.violation("migration-fails", f"apply_migrations raised {type(merr).__name__}: {merr} ({merr.__cause__!r})", {"case": case})
        return
    p, perr = sig.exc_name(signac.Project, root)
    if perr is not None:
        ctx.violation("migrated-project-does-not-open", f"Project() raised {type(perr).__name__}: {perr}", {"case": case})
        return
    got = model.raw_jobs(root)
    problems = []
    if set(got) != set(want):
        problems.append(("ids", sorted(want), sorted(got)))
    for jid in set(got) & set(want):
        if not model.typed_eq(got[jid]["sp"], want[jid]["sp"]) or not model.typed_eq(got[jid]["doc"], want[jid]["doc"]) \
                or got[jid]["files"] != want[jid]["files"]:
            problems.append(("job-content", jid))
    api = sig.api_view(root)
    if set(api) != set(want):
        problems.append(("api-ids", sorted(api)))
    doc = model.plain(signac.Project(root).document())
    exp_doc = dict(pdoc)
    if case["name"] != "None":
        exp_doc["signac_project_name"] = case["name"]
    if not model.typed_eq(doc, exp_doc):
        problems.append(("project-document", doc, exp_doc))
    if case["extras"] & 1:
        cb = before.get(".signac_sp_cache.json.gz")
        if after.get(os.path.join(".signac", "statepoint_cache.json.gz")) != cb or ".signac_sp_cache.json.gz" in after:
            problems.append(("cache-file-not-moved",))
        if after.get(os.path.join(".signac", "shell_history")) != before.get(".signac_shell_history"):
            problems.append(("shell-history-not-moved",))
    if "signac.rc" in after:
        problems.append(("legacy-config-left-behind",))
    if problems:
        ctx.violation("migration-does-not-preserve-project", "the migrated project differs from the legacy project",
                      {"problems": problems[:5], "case": case})
        return
    # second migration
    with contextlib.redirect_stderr(io.StringIO()):
        _, merr2 = sig.exc_name(apply_migrations, root)
    ctx.monitor("second_migration_noop")
    again = model.snapshot(root)
    if merr2 is not None or again != after:
        ctx.violation("second-migration-not-noop", "migrating the migrated project again changed it",
                      {"err": repr(merr2), "diff": model.snap_diff(after, again)})
        return
    if case["njobs"]:
        ctx.distinct("nontrivial", case)
    ctx.sample(case)
