"""C06 - find_jobs returns exactly the jobs a per-job reference evaluator accepts."""

import copy
import os
import random

from .. import model, query, sig

PROP = "C06"
LEVEL = "exploration"
MONITORS = ["content_changed_under_handle", "evaluator", "locality", "algebra"]
RULE = (
    "Corpora of 0-6 jobs (state point keys a, b, n.x, n.z.w; document keys d, m.y; values over ints, "
    "int-valued floats, other floats, bools, None, strings, lists, nested mappings, missing keys; homogeneous, "
    "string-only and fully mixed profiles) x a deterministic battery of every key x operator x type-aware and "
    "foreign arguments, plus seeded random filters of depth 0-3 over $and/$or/$not with sp./doc. namespaces. "
    "Each (corpus, filter) is compared with the job-local evaluator; ill-typed pairs (TypeError on a present "
    "value) are counted, not judged. Locality: each job alone in its own project must give the same verdict. "
    "Algebra: $not/$and/$or of real results. Non-trivial and distinct = distinct (corpus, filter) pairs that were "
    "judged and whose result is neither empty nor the whole corpus."
)
RULE += (
    " " + "Added later: integers beyond 2**53 and the float next to them; strings and patterns holding '/'; one mapping constraining a key twice (dotted and nested); single-digit document values changed through another handle with the file's time stamp put back, then asked again through the long-lived handle."
    " In every third case DEBUG logging is effective for the package."
)
ASSUMPTIONS = [
    "Evaluator conventions where the statement is silent: presence required for every operator but $exists:false; "
    "Python == after list->tuple; mapping-valued keys equal nothing; isinstance for $type; math.isclose for $near.",
    "Outside the grammar (not generated): $where, empty-mapping values, mapping-valued operator arguments, "
    "two keys normalising to the same namespaced key in one mapping.",
]
MANIFEST = {"technique": 'runtime monitoring: per-job reference evaluator, locality (single-job projects) and set-algebra monitors over generated corpora x filters', "engine": 'reference-model monitor'}
TIME_CAP = {"quick": 70, "thorough": 1200}


def gen_cases(ctx):
    rng = ctx.grng("corpora")
    n = ctx.budget(4000, 60000)
    for i in range(n):
        corpus = query.rand_corpus(rng)
        fseed = rng.getrandbits(48)
        if ctx.take(i):
            yield {
                "corpus": corpus,
                "fseed": fseed,
                "nrand": 60,
                "battery": i % 3 == 0,
                "locality": i % 4 == 1,
            }


def _doc_only_under_not(flt, under_not=False):
    """True iff every doc.* key of the filter sits beneath some $not (and there is one)."""
    found = [False]
    ok = [True]

    def walk(f, un):
        for k, v in f.items():
            if k in ("$and", "$or"):
                for e in v:
                    walk(e, un)
            elif k == "$not":
                walk(v, True)
            elif k.split(".", 1)[0] == "doc":
                found[0] = True
                if not un:
                    ok[0] = False

    walk(flt, under_not)
    return found[0] and ok[0]


def _strip_docs(by_id):
    return {i: {"sp": jd["sp"], "doc": {}} for i, jd in by_id.items()}


def _bool_int_conflation(by_id, flt, got, exp):
    """The jobs on which result and expectation differ hold a bool resp. an equal int under a
    key queried with $type, and the corpus holds both kinds under that key."""
    diff = got ^ exp
    keys = []

    def walk(f):
        for k, v in f.items():
            if k in ("$and", "$or"):
                for e in v:
                    walk(e)
            elif k == "$not":
                walk(v)
            else:
                for dk, a in query.flat_atoms(query.prefixed(k), v):
                    if dk.endswith(".$type") and a in ("bool", "int"):
                        keys.append(dk[: -len(".$type")].split("."))

    walk(flt)
    if not keys or not diff:
        return False
    for nodes in keys:
        vals = {i: query.lookup(jd, nodes) for i, jd in by_id.items()}
        bools = {i for i, v in vals.items() if isinstance(v, bool)}
        ints = {i for i, v in vals.items() if type(v) is int and v in (0, 1)}
        if bools and ints and diff <= (bools | ints):
            for b in bools:
                if any(vals[b] == vals[i] for i in ints):
                    return True
    return False


def _doc_at_root(flt):
    """A doc.* key is visible without descending into $not (through $and/$or only)."""
    for k, v in flt.items():
        if k in ("$and", "$or"):
            if any(_doc_at_root(e) for e in v):
                return True
        elif k == "$not":
            continue
        elif k.split(".", 1)[0] == "doc":
            return True
    return False


def _pred_not_bug(by_id, flt):
    """Result predicted by the known mechanism 'documents are ignored when every doc.* key sits
    beneath a $not' (and the true result otherwise)."""
    if query.filter_uses_doc(flt) and not _doc_at_root(flt):
        return query.expected_ids(_strip_docs(by_id), flt)[0], True
    return query.expected_ids(by_id, flt)[0], False


def classify(by_id, flt, got, exp):
    pred, hidden = _pred_not_bug(by_id, flt)
    if hidden and pred == got:
        return "not-hides-doc-namespace"
    if _bool_int_conflation(by_id, flt, got, exp):
        return "index-conflates-bool-int"
    return "find-differs-from-evaluator"


def judge(ctx, project, by_id, flt, results):
    got, err = query.find_ids(project, flt)
    exp, ill = query.expected_ids(by_id, flt)
    results.append((flt, got, err))
    if ill:
        ctx.count("ill_typed_pairs")
        return
    ctx.monitor("evaluator")
    if err is not None:
        key = "find-raises-on-well-typed-filter"
        if _doc_only_under_not(flt) and isinstance(err, TypeError):
            pass
        ctx.violation(key, f"find_jobs raised {type(err).__name__}: {err}",
                      {"filter": flt, "corpus": list(by_id.values()), "expected": sorted(exp)})
        return
    if got != exp:
        ctx.violation(
            classify(by_id, flt, got, exp),
            "find_jobs result differs from per-job evaluation",
            {
                "filter": flt,
                "corpus": by_id,
                "got": sorted(got),
                "expected": sorted(exp),
            },
        )
    if 0 < len(exp) < len(by_id):
        ctx.distinct("nontrivial", [sorted(by_id), flt])


def run_case(ctx, case):
    corpus = case["corpus"]
    project, by_id = query.build_project(ctx, corpus)
    rng = random.Random(case["fseed"])
    filters = []
    if case.get("battery"):
        filters.extend(query.all_atoms(corpus))
    for _ in range(case["nrand"]):
        filters.append(query.rand_filter(rng, corpus, rng.choice([0, 0, 1, 1, 2, 3])))
    if "only_filter" in case:
        filters = [case["only_filter"]]
    results = []
    for flt in filters:
        judge(ctx, project, by_id, flt, results)
    ctx.count("queries", len(filters))
    all_ids = set(by_id)

    # algebra on real results
    ok = [(f, g) for f, g, e in results if e is None]
    for _ in range(min(30, len(ok))):
        (f1, r1), (f2, r2) = rng.choice(ok), rng.choice(ok)
        for comp, want in (
            ({"$and": [f1, f2]}, r1 & r2),
            ({"$or": [f1, f2]}, r1 | r2),
            ({"$not": f1}, all_ids - r1),
        ):
            got, err = query.find_ids(project, comp)
            if err is not None:
                ctx.count("algebra_composite_raised")
                continue
            ctx.monitor("algebra")
            if got != want:
                key = "logical-operator-not-set-algebra"
                parts = [(comp, got), (f1, r1)] + ([] if "$not" in comp else [(f2, r2)])
                preds = [_pred_not_bug(by_id, x) for x, _ in parts]
                if any(h for _, h in preds) and all(p == r for (p, _), (_, r) in zip(preds, parts)):
                    key = "not-hides-doc-namespace"
                elif _bool_int_conflation(by_id, comp, got, want):
                    key = "index-conflates-bool-int"
                ctx.violation(key, "composite result is not the set-algebraic combination of operand results",
                              {"composite": comp, "got": sorted(got), "want": sorted(want), "corpus": by_id})

    # locality: each job alone
    if case.get("locality") and len(by_id) >= 2:
        singles = {}
        for jid, jd in by_id.items():
            p1, b1 = query.build_project(ctx, [jd], tag="one")
            singles[jid] = p1
        for flt, full, err in results[:80]:
            if err is not None:
                continue
            for jid, p1 in singles.items():
                got1, e1 = query.find_ids(p1, flt)
                if e1 is not None:
                    continue
                ctx.monitor("locality")
                if (jid in full) != (got1 == {jid}):
                    key = "result-depends-on-other-jobs"
                    if _bool_int_conflation(by_id, flt, full, full ^ {jid}):
                        key = "index-conflates-bool-int"
                    ctx.violation(key, "a job's match verdict changes with the presence of other jobs",
                                  {"filter": flt, "job": by_id[jid], "in_full_result": jid in full,
                                   "alone_result": sorted(got1), "corpus": by_id})
    # the data move on under a long-lived handle, on a clock too coarse to show it: answers follow the data
    if case["fseed"] % 4 == 0 and "only_filter" not in case:
        import signac

        changed = False
        for jid, jd in by_id.items():
            d = jd["doc"].get("d")
            if isinstance(d, int) and not isinstance(d, bool) and 0 <= d <= 8:
                fn = os.path.join(project.path, "workspace", jid, model.DOC_FILE)
                st = os.stat(fn)
                signac.Project(project.path).open_job(id=jid).document["d"] = d + 1  # through another handle
                if os.stat(fn).st_size == st.st_size:
                    os.utime(fn, ns=(st.st_atime_ns, st.st_mtime_ns))
                jd["doc"]["d"] = d + 1
                changed = True
        if changed:
            ctx.monitor("content_changed_under_handle")
            for flt in [{"doc.d": v} for v in range(0, 10)] + [{"$not": {"doc.d": 1}}, {"doc.d": {"$gt": 1}}]:
                judge(ctx, project, by_id, flt, [])
    if filters:
        ctx.sample({"corpus": corpus[:3], "filter": filters[-1]})
