"""Controlled scheduling of real processes at file-system-call granularity.

Every actor is a forked process. Before each file-system call under the monitored root
(audited calls via fsmon, plus os.stat / os.lstat which have no audit event) the actor
announces the call to the controller over a pipe and blocks until released. The controller
waits until every live actor is blocked or finished and then releases exactly one, so it
chooses the total order of FS calls. Schedules are explored by stateless DFS with sleep
sets (re-execution from scratch for every schedule) or sampled at random.
"""

import json
import os
import select
import struct
import sys
import traceback

from . import fsmon

WATCHDOG = 60.0


def _send(fd, obj):
    data = json.dumps(obj, default=repr).encode()
    os.write(fd, struct.pack("<I", len(data)) + data)


def _recv_exact(fd, n, timeout):
    buf = b""
    while len(buf) < n:
        r, _, _ = select.select([fd], [], [], timeout)
        if not r:
            raise TimeoutError("actor did not respond")
        chunk = os.read(fd, n - len(buf))
        if not chunk:
            raise EOFError("actor pipe closed")
        buf += chunk
    return buf


def _recv(fd, timeout=WATCHDOG):
    (n,) = struct.unpack("<I", _recv_exact(fd, 4, timeout))
    return json.loads(_recv_exact(fd, n, timeout).decode())


def _safe_str(e):
    """str(e), for exception classes whose own __str__ is broken."""
    try:
        return str(e)
    except Exception:
        return repr(getattr(e, "args", "?"))


class _ActorSide:
    """Runs inside an actor process."""

    def __init__(self, root, to_ctrl, from_ctrl):
        self.root = os.path.normpath(root)
        self.to_ctrl = to_ctrl
        self.from_ctrl = from_ctrl
        self.op = -1
        self.armed = False
        self.busy = False

    def gate(self, kind, paths, mut, detail=None):
        if not self.armed or self.busy:
            return
        self.busy = True
        try:
            _send(self.to_ctrl, {"t": "ev", "kind": kind, "paths": paths, "mut": mut, "op": self.op, "detail": detail})
            b = os.read(self.from_ctrl, 1)
            if not b:
                os._exit(9)
        finally:
            self.busy = False

    def on_event(self, ev):
        self.gate(ev.kind, [os.path.relpath(p, self.root) for p in ev.paths()], ev.mut, ev.detail)

    def install_stat_patch(self):
        real_stat, real_lstat = os.stat, os.lstat
        side = self

        def rel(path):
            try:
                if isinstance(path, int):
                    return None
                p = os.path.normpath(os.path.abspath(os.fspath(path)))
                if isinstance(p, bytes):
                    p = os.fsdecode(p)
                if p == side.root or p.startswith(side.root + os.sep):
                    return os.path.relpath(p, side.root)
            except Exception:
                pass
            return None

        def stat(path, *a, **kw):
            r = rel(path)
            if r is not None:
                side.gate("stat", [r], False)
            return real_stat(path, *a, **kw)

        def lstat(path, *a, **kw):
            r = rel(path)
            if r is not None:
                side.gate("lstat", [r], False)
            return real_lstat(path, *a, **kw)

        os.stat = stat
        os.lstat = lstat

    def install_open_patch(self):
        """write() and close() of files opened for writing under the root become scheduling points
        (the data of an in-place write only reaches the file at flush/close)."""
        import builtins
        import io
        import shutil

        real_open = builtins.open
        side = self

        class Proxy:
            def __init__(self, real, rel):
                object.__setattr__(self, "_real", real)
                object.__setattr__(self, "_rel", rel)

            def write(self, data):
                side.gate("write", [self._rel], True)
                return self._real.write(data)

            def close(self):
                if not self._real.closed:
                    side.gate("close", [self._rel], True)
                return self._real.close()

            def __enter__(self):
                self._real.__enter__()
                return self

            def __exit__(self, *a):
                if not self._real.closed:
                    side.gate("close", [self._rel], True)
                return self._real.__exit__(*a)

            def __getattr__(self, name):
                return getattr(self._real, name)

            def __setattr__(self, name, value):
                setattr(self._real, name, value)

            def __iter__(self):
                return iter(self._real)

        def patched(file, mode="r", *a, **kw):
            f = real_open(file, mode, *a, **kw)
            try:
                if isinstance(file, (str, bytes, os.PathLike)) and any(c in mode for c in "wax+"):
                    p = os.path.normpath(os.path.abspath(os.fspath(file)))
                    if isinstance(p, bytes):
                        p = os.fsdecode(p)
                    if p == side.root or p.startswith(side.root + os.sep):
                        return Proxy(f, os.path.relpath(p, side.root))
            except Exception:
                pass
            return f

        builtins.open = patched
        io.open = patched
        shutil._USE_CP_SENDFILE = False


def _actor_main(index, root, script_fn, to_ctrl, from_ctrl):
    code = 0
    try:
        import uuid

        counter = [0]

        def fake_uuid4():
            counter[0] += 1
            return uuid.UUID(int=(index + 1) * 10**6 + counter[0])

        uuid.uuid4 = fake_uuid4
        side = _ActorSide(root, to_ctrl, from_ctrl)
        side.install_stat_patch()
        side.install_open_patch()
        sess = fsmon.Session([root], on_step=side.on_event)
        result = {"ok": True, "values": None, "error": None}
        with sess:
            side.armed = True
            try:
                result["values"] = script_fn(side)
            except BaseException as e:  # noqa
                result["ok"] = False
                result["error"] = [type(e).__name__, _safe_str(e)[:300], traceback.format_exc()[-1200:]]
            side.armed = False
        _send(to_ctrl, {"t": "done", "result": result})
    except BaseException:
        try:
            _send(to_ctrl, {"t": "done", "result": {"ok": False, "values": None, "error": ["HarnessError", traceback.format_exc()[-1500:], ""]}})
        except Exception:
            pass
        code = 3
    finally:
        os._exit(code)


def conflicts(a, b):
    """Dependence between two announced events (conservative)."""
    if not a["mut"] and not b["mut"]:
        return False
    for p in a["paths"]:
        for q in b["paths"]:
            if p == q or p.startswith(q + os.sep) or q.startswith(p + os.sep) or p == "." or q == ".":
                return True
            # creating / removing / renaming an entry conflicts with listing its directory
            for x, y, ex in ((p, q, a), (q, p, b)):
                if ex["kind"] in ("listdir", "scandir") and os.path.dirname(y) == x:
                    return True
            # two entries in one directory: creating one does not affect stat of the other
    return False


def execute(root_factory, scripts, chooser):
    """Run one schedule. root_factory() -> fresh root (scenario already built).
    scripts: list of callables(side) -> values. chooser(enabled: dict actor->event, log) -> actor index.
    Returns dict(log, results, timeout)."""
    root = root_factory()
    sys.stdout.flush()
    sys.stderr.flush()
    actors = []
    for i, fn in enumerate(scripts):
        a2c_r, a2c_w = os.pipe()
        c2a_r, c2a_w = os.pipe()
        pid = os.fork()
        if pid == 0:
            os.close(a2c_r)
            os.close(c2a_w)
            for other in actors:
                os.close(other["r"])
                os.close(other["w"])
            _actor_main(i, root, fn, a2c_w, c2a_r)
        os.close(a2c_w)
        os.close(c2a_r)
        actors.append({"pid": pid, "r": a2c_r, "w": c2a_w, "pending": None, "done": False, "result": None})
    log = []
    timeout = False
    try:
        # initial: wait for every actor's first message
        for a in actors:
            _wait(a)
        while True:
            enabled = {i: a["pending"] for i, a in enumerate(actors) if not a["done"] and a["pending"] is not None}
            if not enabled:
                break
            i = chooser(enabled, log)
            a = actors[i]
            ev = a["pending"]
            log.append({"actor": i, "ev": ev, "enabled": {str(k): v for k, v in enabled.items()}})
            a["pending"] = None
            os.write(a["w"], b"g")
            _wait(a)
    except Divergence:
        for a in actors:
            try:
                os.kill(a["pid"], 9)
            except OSError:
                pass
        raise
    except (TimeoutError, EOFError) as e:
        timeout = True
        log.append({"actor": -1, "ev": {"kind": "WATCHDOG", "paths": [], "mut": False, "detail": repr(e)}, "enabled": {}})
    finally:
        for a in actors:
            try:
                os.close(a["w"])
            except OSError:
                pass
        for a in actors:
            if timeout:
                try:
                    os.kill(a["pid"], 9)
                except OSError:
                    pass
            try:
                _, status = os.waitpid(a["pid"], 0)
                a["exit"] = os.waitstatus_to_exitcode(status)
            except ChildProcessError:
                a["exit"] = None
            try:
                os.close(a["r"])
            except OSError:
                pass
    return {"root": root, "log": log, "results": [a["result"] for a in actors], "exits": [a.get("exit") for a in actors],
            "timeout": timeout}


def _wait(a):
    msg = _recv(a["r"])
    if msg["t"] == "done":
        a["done"] = True
        a["result"] = msg["result"]
        a["pending"] = None
    else:
        a["pending"] = msg


def trace_signature(log):
    """Hash of the Mazurkiewicz trace (Foata normal form under `conflicts`)."""
    import hashlib

    levels = []  # list of lists of (actor, ev)
    for entry in log:
        if entry["actor"] < 0:
            continue
        ev = entry["ev"]
        lvl = 0
        for k in range(len(levels) - 1, -1, -1):
            if any(o_actor == entry["actor"] or conflicts(o_ev, ev) for o_actor, o_ev in levels[k]):
                lvl = k + 1
                break
        if lvl == len(levels):
            levels.append([])
        levels[lvl].append((entry["actor"], ev))
    canon = [sorted((a, e["kind"], tuple(e["paths"])) for a, e in lvl) for lvl in levels]
    return hashlib.blake2b(json.dumps(canon).encode(), digest_size=8).hexdigest()


class Divergence(Exception):
    pass


class DFS:
    """Stateless DFS with sleep sets over schedules. Use: for run in dfs.runs(execute_fn)."""

    def __init__(self, max_schedules):
        self.max_schedules = max_schedules
        self.executed = 0
        self.pruned = 0
        self.complete = False

    def explore(self, run_schedule):
        """run_schedule(chooser) -> result with 'log'. Yields results."""
        # stack entries per depth: dict(enabled events, sleep, done(list of actors explored))
        stack = []
        guide = []
        while True:
            depth_state = {"depth": 0}
            frames = []

            def chooser(enabled, log, _guide=guide, _stack=stack, _frames=frames):
                d = len(log)
                if d < len(_stack):
                    fr = _stack[d]
                    choice = _guide[d]
                    if choice not in enabled:
                        raise Divergence(f"replay diverged at depth {d}: {choice} not in {sorted(enabled)}")
                    _frames.append(fr)
                    return choice
                # new frame: sleep set inherited from the parent frame
                if d == 0:
                    sleep = {}
                    parent_redundant = False
                else:
                    parent = _frames[d - 1]
                    chosen_ev = log[d - 1]["ev"]
                    chosen_actor = log[d - 1]["actor"]
                    sleep = {a: e for a, e in parent["sleep_for_child"].items()
                             if a != chosen_actor and a in enabled and not conflicts(e, chosen_ev)}
                    parent_redundant = parent.get("redundant", False)
                candidates = [a for a in sorted(enabled) if a not in sleep]
                redundant = parent_redundant
                if not candidates:
                    # everything enabled is asleep: the rest of this execution is covered elsewhere;
                    # the actors cannot be rewound, so the run is finished with arbitrary choices
                    candidates = sorted(enabled)
                    redundant = True
                choice = candidates[0]
                fr = {"enabled": dict(enabled), "sleep": dict(sleep), "done": [choice], "redundant": redundant,
                      "sleep_for_child": dict(sleep)}
                _stack.append(fr)
                _guide.append(choice)
                _frames.append(fr)
                return choice

            res = run_schedule(chooser)
            self.executed += 1
            res["redundant"] = any(fr.get("redundant") for fr in frames)
            if res["redundant"]:
                self.pruned += 1
            yield res
            if self.executed >= self.max_schedules:
                return
            # truncate stack to the executed length (schedules may have different lengths)
            n = len(res["log"])
            del stack[n:]
            del guide[n:]
            # backtrack
            while stack:
                fr = stack[-1]
                # after exploring the choices in fr["done"], they join the sleep set of later siblings
                slept = dict(fr["sleep"])
                for a in fr["done"]:
                    slept[a] = fr["enabled"][a]
                alt = [a for a in sorted(fr["enabled"]) if a not in slept]
                if alt and not fr.get("redundant"):
                    choice = alt[0]
                    fr["done"].append(choice)
                    # sleep set handed to the child of this new choice: earlier siblings + inherited
                    fr["sleep_for_child"] = {a: e for a, e in slept.items()}
                    guide[-1] = choice
                    break
                stack.pop()
                guide.pop()
            if not stack:
                self.complete = True
                return


def random_chooser(rng):
    def chooser(enabled, log):
        return rng.choice(sorted(enabled))

    return chooser


def pct_chooser(rng, nactors, depth, est_len=60):
    """PCT-style: random priorities, `depth` priority change points."""
    prio = list(range(nactors))
    rng.shuffle(prio)
    change = sorted(rng.randrange(est_len) for _ in range(depth))

    def chooser(enabled, log):
        step = len(log)
        while change and change[0] <= step:
            change.pop(0)
            # demote the currently highest-priority enabled actor
            top = max(enabled, key=lambda a: prio[a])
            prio[top] = min(prio) - 1
        return max(enabled, key=lambda a: prio[a])

    return chooser
