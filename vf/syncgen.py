"""Project-pair universe and helpers for the sync properties C13, C14, C15."""

import copy
import os
import re

from . import model, sig

T0 = 1_600_000_000  # base mtime (seconds)
FILE_NAMES = ["a.txt", "b.dat", "x_excl.log", "data.txt"]  # "data.txt" holds, but does not start with, "a.txt"
SUB = "sub"
CONTENTS = ["alpha", "bravo", "ALPHA", "", "charlie-long-content", "B" + "y" * 9000]  # the last one spans buffers


# ordinary data files whose names other tools treat specially (filecmp's default ignore list, core dumps)
ODD_NAMES = ["tags", "__pycache__", "core", "c.json"]


def rand_files(rng, nested=True):
    files = {}
    for fn in FILE_NAMES:
        if rng.random() < 0.55:
            files[fn] = [rng.choice(CONTENTS), T0 + rng.choice([0, 0, 100, 200, 100.75])]
    if rng.random() < 0.12:
        files[rng.choice(ODD_NAMES)] = [rng.choice(CONTENTS), T0 + rng.choice([0, 100])]
    if nested and rng.random() < 0.45:
        for fn in rng.sample(FILE_NAMES, rng.randint(1, 2)):
            files[f"{SUB}/{fn}"] = [rng.choice(CONTENTS), T0 + rng.choice([0, 100])]
        if rng.random() < 0.3:
            files[f"{SUB}/deep/z.txt"] = [rng.choice(CONTENTS), T0]
            if rng.random() < 0.5:  # a second file two levels down: one side may lack only this one
                files[f"{SUB}/deep/w.txt"] = [rng.choice(CONTENTS), T0 + rng.choice([0, 100])]
    return files


def rand_doc(rng, depth3=True):
    doc = {}
    for k in ("k1", "k2"):
        if rng.random() < 0.5:
            doc[k] = rng.choice([1, 2, "s", "t", [1, 2], None])
    if rng.random() < 0.5:
        doc["m"] = {"x": rng.choice([1, 2]), "y": rng.choice(["p", "q"])}
        if depth3 and rng.random() < 0.6:
            doc["m"]["n"] = {"z": rng.choice([1, 2, 3]), "w": rng.choice([0, 9])}
    elif rng.random() < 0.25:
        doc["m"] = rng.choice([5, "scalar"])
    return doc


def rand_side(rng, nmax=4):
    jobs = {}
    for i in rng.sample(range(4), rng.randint(0, nmax)):
        jobs[str(i)] = {"files": rand_files(rng), "doc": rand_doc(rng) if rng.random() < 0.75 else {}}
    return {"jobs": jobs, "pdoc": rand_doc(rng) if rng.random() < 0.5 else {}}


def correlate(rng, src, dst):
    """Make the destination share structure with the source so that 'identical', 'conflicting' and
    'same size+mtime but different content' situations occur often."""
    for k, sj in src["jobs"].items():
        if k in dst["jobs"]:
            dj = dst["jobs"][k]
            for fn, (content, mt) in sj["files"].items():
                r = rng.random()
                if r < 0.25:
                    dj["files"][fn] = [content, mt]  # identical
                elif r < 0.40:
                    other = content.swapcase() if content.swapcase() != content else content[::-1]
                    if len(content) > 8192:
                        other = ("J" if content[0] != "J" else "K") + content[1:]  # differs in its first byte only
                    if len(other) == len(content) and other != content:
                        dj["files"][fn] = [other, mt]  # same size, same mtime, different content
                elif r < 0.55:
                    # older / equal / newer, by whole seconds or by a fraction of one
                    dj["files"][fn] = [content + "-dst", mt + rng.choice([-50, 0, 50, -0.5, 0.125])]
            if sj["doc"] and rng.random() < 0.5:
                d = copy.deepcopy(sj["doc"])
                if rng.random() < 0.6 and isinstance(d.get("m"), dict):
                    d["m"]["x"] = 77
                    if isinstance(d["m"].get("n"), dict) and rng.random() < 0.7:
                        d["m"]["n"]["z"] = 88
                if rng.random() < 0.5:
                    d["dst_only"] = "keep"
                dj["doc"] = d
    return src, dst


def sp_of(key):
    return {"a": int(key)}


def build(ctx, side, tag):
    """Create the project for one side. Returns Project."""
    project = sig.new_project(ctx, tag)
    for key, spec in side["jobs"].items():
        job = project.open_job(sp_of(key)).init()
        if spec["doc"]:
            job.document.update(copy.deepcopy(spec["doc"]))
        for rel, (content, mt) in spec["files"].items():
            p = job.fn(rel)
            sig.write_file(p, content)
            os.utime(p, (mt, mt))
        # stable mtimes for directories are irrelevant; documents get a fixed mtime
        for fn in (model.DOC_FILE, model.SP_FILE):
            p = job.fn(fn)
            if os.path.exists(p):
                os.utime(p, (T0, T0))
    if side["pdoc"]:
        project.document.update(copy.deepcopy(side["pdoc"]))
    return project


def rand_options(rng, src):
    o = {}
    o["strategy"] = rng.choice([None, "always", "never", "update", "custom"])
    o["doc_sync"] = rng.choice([None, None, "bykey_fn", "bykey_regex", "update", "NO_SYNC", "COPY"])
    o["recursive"] = rng.random() < 0.5
    # the last pattern also matches signac's own state point / document files, which are not data files
    o["exclude"] = rng.choice([None, None, r".*_excl\.log", [r"^b\."], r"a\.txt", r".*\.json",
                              # two patterns, the first with a group, the second with a numbered back-reference: excludes
                              # x_excl.log and data.txt
                              [r"(x_excl)\.log", r"(d)(a)t\2\.txt"]])
    ids = sorted(src["jobs"])
    if ids and rng.random() < 0.3:
        o["selection"] = [rng.choice(["id", "job"]), rng.sample(ids, rng.randint(0, len(ids)))]
    else:
        o["selection"] = None
    o["check_schema"] = rng.random() < 0.5
    if o["doc_sync"] in ("bykey_fn", "bykey_regex"):
        o["keys"] = rng.sample(["k1", "k2", "m.x", "m.y", "m.n.z", "m.n.w", "m"], rng.randint(0, 4))
    return o


def file_strategy(name, log):
    """Recording wrapper around a file strategy. log gets (job id, relpath, verdict)."""
    from signac.sync import FileSync

    if name is None:
        return None
    if name == "custom":
        def inner(src, dst, fn):
            return os.path.basename(fn).startswith("a")
    else:
        inner = getattr(FileSync, name)

    def strategy(src, dst, fn):
        v = inner(src, dst, fn)
        log.append((src.id, fn, bool(v)))
        return v

    return strategy


def doc_strategy(opts, log):
    from signac.sync import DocSync

    name = opts["doc_sync"]
    if name is None:
        return None
    if name == "update":
        return DocSync.update
    if name == "NO_SYNC":
        return DocSync.NO_SYNC
    if name == "COPY":
        return DocSync.COPY
    keys = list(opts.get("keys", []))
    if name == "bykey_fn":
        def key_strategy(key):
            log.append(key)
            return key in keys

        return DocSync.ByKey(key_strategy)
    if name == "bykey_regex":
        if not keys:
            pattern = r"^$nomatch"
        else:
            pattern = "^(" + "|".join(re.escape(k) for k in keys) + ")$"
        return DocSync.ByKey(pattern)
    raise ValueError(name)


def selection_arg(opts, src_project):
    sel = opts.get("selection")
    if sel is None:
        return None
    how, keys = sel
    ids = [model.model_id(sp_of(k)) for k in keys]
    if how == "id":
        return ids
    return [src_project.open_job(id=i) for i in ids]


def excluded(opts, basename):
    ex = opts.get("exclude")
    if ex is None:
        return False
    pats = ex if isinstance(ex, list) else [ex]
    return any(re.match(p, basename) for p in pats)


def call_sync(dst_project, src_project, opts, flog, dlog, entry="Project.sync", **extra):
    """Run the sync through one of the entry points. Returns exception or None."""
    from signac.sync import sync_projects

    kw = dict(
        strategy=file_strategy(opts["strategy"], flog),
        exclude=copy.deepcopy(opts["exclude"]),
        doc_sync=doc_strategy(opts, dlog),
        selection=selection_arg(opts, src_project),
        check_schema=opts["check_schema"],
        recursive=opts["recursive"],
    )
    kw.update(extra)
    try:
        if entry == "Project.sync":
            dst_project.sync(src_project, **kw)
        else:
            sync_projects(source=src_project, destination=dst_project, **kw)
        return None
    except Exception as e:  # noqa
        return e
