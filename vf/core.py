"""Shared runner: sharded workers, counters, verdicts, evidence, known findings.

Every property module exposes

    PROP            "C06"
    LEVEL           manifest/evidence level category
    RULE            text: how cases are generated and what counts as non-trivial
    MONITORS        names of deciding monitors that must have been evaluated > 0 times
    ASSUMPTIONS     list[str]
    gen_cases(ctx)  -> iterator of JSON-serialisable case dicts (already sharded by ctx.take(i))
    run_case(ctx, case) -> None; reports through ctx.violation()/ctx.monitor()/ctx.distinct()

The parent process starts N worker subprocesses of the same CLI (one per shard),
collects their JSON results, classifies violations against known_findings.json,
prints KNOWN-FINDING / VIOLATION / INCONCLUSIVE lines, writes the evidence file
and exits 0 / 1 / 2.
"""

import hashlib
import json
import logging
import os
import random
import shutil
import sys
import tempfile
import time
import traceback

HERE = os.path.dirname(os.path.dirname(os.path.abspath(__file__)))  # checkout root
EVIDENCE_DIR = os.path.join(HERE, "evidence")
REPLAY_DIR = os.path.join(HERE, "replays")
FINDINGS_FILE = os.path.join(HERE, "known_findings.json")

SCRATCH_BASE = "/dev/shm" if os.path.isdir("/dev/shm") and os.access("/dev/shm", os.W_OK) else None

MAX_SAMPLES = 6
MAX_VIOLATIONS_KEPT = 40


def jdefault(o):
    if isinstance(o, (set, frozenset)):
        return sorted(o, key=repr)
    if isinstance(o, bytes):
        try:
            return o.decode("utf-8")
        except UnicodeDecodeError:
            return "hex:" + o.hex()
    if isinstance(o, tuple):
        return list(o)
    if isinstance(o, type):
        return o.__name__
    return repr(o)


def jdump(o, **kw):
    return json.dumps(o, default=jdefault, sort_keys=True, **kw)


def short_hash(o):
    if not isinstance(o, str):
        o = jdump(o)
    return hashlib.blake2b(o.encode("utf-8", "surrogatepass"), digest_size=8).hexdigest()


def load_findings():
    try:
        with open(FINDINGS_FILE) as f:
            data = json.load(f)
    except FileNotFoundError:
        return []
    return data.get("findings", [])


class Ctx:
    """Per-worker context handed to gen_cases / run_case."""

    def __init__(self, prop, tier, seed, shard=0, nshards=1, replay=False):
        self.prop = prop
        self.tier = tier
        self.seed = seed
        self.shard = shard
        self.nshards = nshards
        self.replay = replay
        self.counters = {}
        self.monitors = {}
        self.distincts = {}
        self.samples = []
        self.violations = []
        self.nviol = 0
        self.extra = {}
        self.t0 = time.time()
        self._scratch_root = None
        self._case_dirs = []
        self._case = None
        self._case_index = 0
        self.deadline = None

    # -- determinism -------------------------------------------------------
    def rng(self, name=""):
        return random.Random(f"{self.prop}:{self.seed}:{self.shard}:{name}")

    def grng(self, name=""):
        """Shard-independent generator (same stream in every shard)."""
        return random.Random(f"{self.prop}:{self.seed}:{name}")

    def take(self, i):
        """True if global case index i belongs to this shard."""
        return self.replay or (i % self.nshards == self.shard)

    @property
    def quick(self):
        return self.tier == "quick"

    def budget(self, quick, thorough):
        return quick if self.tier == "quick" else thorough

    def out_of_time(self):
        return self.deadline is not None and time.time() > self.deadline

    # -- bookkeeping -------------------------------------------------------
    def count(self, name, n=1):
        self.counters[name] = self.counters.get(name, 0) + n

    def monitor(self, name, n=1):
        """An oracle named `name` was actually evaluated n times."""
        self.monitors[name] = self.monitors.get(name, 0) + n

    def distinct(self, name, key):
        self.distincts.setdefault(name, set()).add(short_hash(key))

    def sample(self, obj, force=False):
        if len(self.samples) < MAX_SAMPLES or force:
            self.samples.append(obj)

    def note(self, key, value):
        self.extra[key] = value

    def violation(self, key, what, witness=None):
        """Report a refuting observation.

        key: mechanism signature (never a seed / hash / random value), used for the
        known-findings lookup. what: one line. witness: JSON-serialisable details.
        """
        self.nviol += 1
        self.count("violations_raw")
        if len(self.violations) < MAX_VIOLATIONS_KEPT or not any(
            v["key"] == key for v in self.violations
        ):
            self.violations.append(
                {
                    "key": key,
                    "what": what,
                    "witness": json.loads(jdump(witness)) if witness is not None else None,
                    "case": self._case,
                }
            )

    # -- scratch -----------------------------------------------------------
    def scratch(self, tag="c", keep=False):
        """A fresh directory. Removed after the current case unless keep=True (then at worker exit)."""
        if self._scratch_root is None:
            self._scratch_root = tempfile.mkdtemp(prefix=f"vf_{self.prop}_", dir=SCRATCH_BASE)
        d = tempfile.mkdtemp(prefix=tag + "_", dir=self._scratch_root)
        if not keep:
            self._case_dirs.append(d)
        return d

    def end_case(self):
        for d in self._case_dirs:
            shutil.rmtree(d, ignore_errors=True)
        self._case_dirs = []

    def cleanup(self):
        if self._scratch_root is not None:
            shutil.rmtree(self._scratch_root, ignore_errors=True)
            self._scratch_root = None

    def result(self):
        return {
            "shard": self.shard,
            "counters": self.counters,
            "monitors": self.monitors,
            "distincts": {k: sorted(v) for k, v in self.distincts.items()},
            "samples": self.samples,
            "violations": self.violations,
            "nviol": self.nviol,
            "extra": self.extra,
            "wall_s": time.time() - self.t0,
        }


class _FormattingSink(logging.Handler):
    """Formats every record (so that lazily evaluated log arguments are evaluated) and throws it away."""

    def emit(self, record):
        try:
            record.getMessage()
        except Exception:
            pass


def _set_debug_logging(on):
    """Process-wide state the code under test must not depend on: every third case runs with DEBUG logging
    effective for the package (as under `signac --debug` or logging.basicConfig(level=DEBUG))."""
    lg = logging.getLogger("signac")
    if not any(isinstance(h, _FormattingSink) for h in lg.handlers):
        lg.addHandler(_FormattingSink(level=1))
        lg.propagate = False
    lg.setLevel(logging.DEBUG if on else logging.WARNING)


def run_worker(mod, ctx, time_cap):
    """Run all cases of one shard."""
    ctx.deadline = time.time() + time_cap if time_cap else None
    n = 0
    try:
        for case in mod.gen_cases(ctx):
            ctx._case = case
            n += 1
            ctx.count("cases")
            debug = (n + ctx.seed) % 3 == 0
            _set_debug_logging(debug)
            if debug:
                ctx.count("cases_with_debug_logging")
            try:
                mod.run_case(ctx, case)
            except Exception:  # a harness error is inconclusive, never silently "held"
                ctx.count("harness_errors")
                ctx.extra.setdefault("harness_errors", []).append(
                    {"case": case, "tb": traceback.format_exc()[-3000:]}
                )
                if len(ctx.extra["harness_errors"]) > 5:
                    ctx.extra["harness_errors"].pop()
            ctx._case = None
            ctx.end_case()
            if ctx.out_of_time():
                ctx.count("time_capped")
                break
    except Exception:
        ctx.count("harness_errors")
        ctx.extra.setdefault("harness_errors", []).append(
            {"case": "<generator>", "tb": traceback.format_exc()[-3000:]}
        )
    finally:
        ctx.cleanup()
    return ctx.result()


def merge(results):
    out = {
        "counters": {},
        "monitors": {},
        "distincts": {},
        "samples": [],
        "violations": [],
        "nviol": 0,
        "extra": {},
    }
    for r in results:
        for k, v in r["counters"].items():
            out["counters"][k] = out["counters"].get(k, 0) + v
        for k, v in r["monitors"].items():
            out["monitors"][k] = out["monitors"].get(k, 0) + v
        for k, v in r["distincts"].items():
            out["distincts"].setdefault(k, set()).update(v)
        out["violations"].extend(r["violations"])
        out["nviol"] += r["nviol"]
        for k, v in r["extra"].items():
            if isinstance(v, list):
                out["extra"].setdefault(k, []).extend(v)
            elif isinstance(v, (int, float)) and not isinstance(v, bool):
                out["extra"][k] = out["extra"].get(k, 0) + v
            elif isinstance(v, dict):
                d = out["extra"].setdefault(k, {})
                for kk, vv in v.items():
                    if isinstance(vv, (int, float)) and not isinstance(vv, bool):
                        d[kk] = d.get(kk, 0) + vv
                    else:
                        d.setdefault(kk, vv)
            else:
                out["extra"].setdefault(k, v)
    # round-robin samples across shards
    pools = [list(r["samples"]) for r in results]
    while len(out["samples"]) < MAX_SAMPLES and any(pools):
        for p in pools:
            if p and len(out["samples"]) < MAX_SAMPLES:
                out["samples"].append(p.pop(0))
    return out


def finalize(mod, tier, seed, merged, wall_s, nshards):
    """Classify, print verdict lines, write evidence, return exit code."""
    prop = mod.PROP
    findings = load_findings()
    open_keys = {
        f["key"]: f for f in findings if f["property"] == prop and f.get("status") == "open"
    }
    known_hits = {}
    real = []
    for v in merged["violations"]:
        if v["key"] in open_keys:
            known_hits.setdefault(v["key"], []).append(v)
        else:
            real.append(v)

    lines = []
    for key, hits in sorted(known_hits.items()):
        lines.append(f"KNOWN-FINDING: property={prop} {key}: {open_keys[key]['what']}")

    replay_paths = []
    if real:
        os.makedirs(os.path.join(REPLAY_DIR, prop), exist_ok=True)
        seen = set()
        for v in real:
            if v["key"] in seen and len(replay_paths) >= 10:
                continue
            seen.add(v["key"])
            body = {
                "property": prop,
                "tier": tier,
                "seed": seed,
                "key": v["key"],
                "what": v["what"],
                "case": v["case"],
                "witness": v["witness"],
            }
            sha = short_hash(body)
            path = os.path.join(REPLAY_DIR, prop, sha + ".json")
            with open(path, "w") as f:
                f.write(jdump(body, indent=1))
            replay_paths.append(path)
            lines.append(f"VIOLATION property={prop} replay={path}")
            lines.append(f"  key={v['key']} :: {v['what']}")

    inconclusive = []
    for m in getattr(mod, "MONITORS", []):
        if merged["monitors"].get(m, 0) == 0:
            inconclusive.append(f"monitor '{m}' was never evaluated")
    if merged["counters"].get("harness_errors"):
        inconclusive.append(
            f"{merged['counters']['harness_errors']} harness error(s): "
            + (merged["extra"].get("harness_errors") or [{}])[0].get("tb", "")[-600:]
        )
    if merged["counters"].get("worker_failed"):
        inconclusive.append(f"{merged['counters']['worker_failed']} worker(s) failed")

    dn_name = getattr(mod, "DISTINCT", "nontrivial")
    distinct_nontrivial = len(merged["distincts"].get(dn_name, ()))
    evaluations = merged["counters"].get("cases", 0)
    if evaluations == 0:
        inconclusive.append("no cases were executed")
    if distinct_nontrivial < 2 and not real:
        inconclusive.append("fewer than 2 distinct non-trivial cases observed")

    coverage = {
        "evaluations": evaluations,
        "distinct_nontrivial": distinct_nontrivial,
        "rule": mod.RULE,
        "samples": merged["samples"] or ["<none>"],
        "monitor_evaluations": merged["monitors"],
        "counters": merged["counters"],
        "distinct_counts": {k: len(v) for k, v in merged["distincts"].items()},
        "shards": nshards,
        "known_findings_hit": {k: len(v) for k, v in known_hits.items()},
        "known_finding_witness": {
            k: {"what": v[0]["what"], "case": v[0]["case"], "witness": v[0]["witness"]}
            for k, v in known_hits.items()
        },
        "time_capped_shards": merged["counters"].get("time_capped", 0),
    }
    if getattr(mod, "EXHAUSTIVE", None) is not None:
        coverage["exhaustive"] = bool(mod.EXHAUSTIVE(tier)) and not coverage["time_capped_shards"]
    for k, v in merged["extra"].items():
        if k != "harness_errors":
            coverage[k] = v
    verdict = "violated" if real else ("inconclusive" if inconclusive else "held_on_observed")
    coverage["verdict"] = verdict
    if inconclusive:
        coverage["inconclusive_reasons"] = inconclusive
    evidence = {
        "property_id": prop,
        "tier": tier,
        "seed": seed,
        "level": mod.LEVEL,
        "coverage": coverage,
        "assumptions": list(getattr(mod, "ASSUMPTIONS", [])),
        "wall_s": round(wall_s, 2),
        "violations": len(real),
    }
    # self-validation tools (mutants, seeded changes) run the checks against deliberately broken trees: their runs must
    # not overwrite the evidence of the unchanged tree (VERIF_EVIDENCE_DIR points them elsewhere)
    evdir = os.environ.get("VERIF_EVIDENCE_DIR") or EVIDENCE_DIR
    os.makedirs(evdir, exist_ok=True)
    tmp = os.path.join(evdir, f".{prop}.json.tmp")
    with open(tmp, "w") as f:
        f.write(jdump(evidence, indent=1))
    os.replace(tmp, os.path.join(evdir, f"{prop}.json"))

    for line in lines:
        print(line)
    mon = " ".join(f"{k}={v}" for k, v in sorted(merged["monitors"].items()))
    print(
        f"[{prop}] tier={tier} seed={seed} cases={evaluations} distinct_nontrivial={distinct_nontrivial} "
        f"monitors: {mon} wall={wall_s:.1f}s verdict={verdict}"
    )
    if real:
        return 1
    if inconclusive:
        for r in inconclusive:
            print(f"INCONCLUSIVE property={prop} reason={r}")
        return 2
    return 0
