"""C13 - a successful sync makes the destination a superset and touches nothing else."""

import copy
import os

from .. import fsmon, model, sig, syncgen

PROP = "C13"
LEVEL = "exploration"
MONITORS = ["source_readonly", "jobs_present", "missing_files_copied", "dst_only_files_kept", "dst_only_keys_kept",
            "idempotent", "no_recursion_unless_asked", "resync_after_removal", "sync_under_io_error"]
RULE = (
    "Project pairs over a small universe (0-4 jobs per side from 4 state points, overlapping/disjoint; files "
    "identical / differing / same-size-same-mtime-different-content / one-sided, nested directories two levels "
    "deep, explicit mtimes; job documents flat, nested to depth 3, conflicting, with destination-only keys; project "
    "documents) x options (strategy None/always/never/update/custom, doc_sync default/ByKey(fn)/ByKey(regex)/update/"
    "NO_SYNC/COPY, recursive, exclude str/list, selection by id/Job, check_schema) x entry point (Project.sync, "
    "sync_projects). Every call runs under the FS monitor (no mutating event under the source). Post-conditions "
    "are judged only when the call returns. Non-trivial and distinct = distinct (pair, options) where the call "
    "returned and at least one file or key was copied or at least one destination-only item existed."
)
RULE += (
    " " + "Added later: file names on filecmp's ignore list, 'data.txt', a destination-only file named like a document backup, a second file two levels down, an exclude pattern matching signac's own files; a re-sync after one synchronised job was removed from the destination; every audited step of a job-level and a project-level sync failing once (EIO, EACCES; ENOENT on writes)."
    " In every third case DEBUG logging is effective for the package."
)
ASSUMPTIONS = [
    "Conflict exceptions (FileSyncConflict, DocumentSyncConflict, SchemaSyncConflict) are legitimate outcomes and "
    "leave the post-conditions unjudged here (C14 / C15 judge them); the source must be untouched in every case.",
    "Under DocSync.COPY a destination document may be replaced as a whole when the file strategy says so.",
]
MANIFEST = {"technique": 'runtime monitoring: FS-call monitor (P-readonly on the source) + post-condition oracle on byte snapshots', "engine": 'fs-call monitor (audit hook)'}
TIME_CAP = {"quick": 70, "thorough": 1500}


def gen_cases(ctx):
    rng = ctx.grng("c13")
    n = ctx.budget(30000, 300000)
    # a sync under I/O errors: whenever it *returns*, the post-condition holds
    for shape in ("job-level", "project-level"):
        if ctx.take(0 if shape == "job-level" else 1):
            yield {"faults": shape}
    for i in range(n):
        src, dst = syncgen.rand_side(rng), syncgen.rand_side(rng)
        syncgen.correlate(rng, src, dst)
        opts = syncgen.rand_options(rng, src)
        entry = rng.choice(["Project.sync", "sync_projects"])
        if dst["jobs"] and rng.random() < 0.05:
            # a destination-only data file that happens to be named like an editor / crash backup of the document
            k = rng.choice(sorted(dst["jobs"]))
            dst["jobs"][k]["files"]["signac_job_document.json~"] = ["keep me", syncgen.T0]
        if ctx.take(i):
            yield {"src": src, "dst": dst, "opts": opts, "entry": entry}


def job_files(snap_project, jid):
    """{relpath within job dir: entry} from a project snapshot."""
    pre = os.path.join("workspace", jid) + os.sep
    return {k[len(pre):]: v for k, v in snap_project.items() if k.startswith(pre)}


def flat_doc(d, prefix=""):
    out = {}
    for k, v in d.items():
        if isinstance(v, dict) and v:
            out.update(flat_doc(v, prefix + k + "."))
        else:
            out[prefix + k] = v
    return out


def doc_of(snap_files):
    e = snap_files.get(model.DOC_FILE)
    if e is None:
        return {}
    import json

    return json.loads(e[1].decode())


def run_faults(ctx, case):
    """Every audited file-system step (reads included) of a sync that has files to copy fails once with EIO or EACCES,
    every writing step also with ENOENT. The call may raise; if it returns, every source-only file is in the
    destination."""
    import errno
    import shutil

    import signac

    from .. import faultrun

    files = {"a.txt": "alpha", "only_src.txt": "new", "sub/only_src2.txt": "new2", "sub/deep/z.txt": "zed"}

    def setup(root):
        S = signac.init_project(os.path.join(root, "s"))
        D = signac.init_project(os.path.join(root, "d"))
        for k in (1, 2):
            js = S.open_job({"a": k}).init()
            for rel, c in files.items():
                sig.write_file(js.fn(rel), c + str(k))
            js.document["k"] = k
        jd = D.open_job({"a": 1}).init()
        sig.write_file(jd.fn("a.txt"), "alpha1")
        sig.write_file(jd.fn("sub/keep.txt"), "dst only")
        return {"S": signac.Project(os.path.join(root, "s")), "D": signac.Project(os.path.join(root, "d"))}

    def op(root, st):
        if case["faults"] == "job-level":
            st["D"].open_job({"a": 1}).sync(st["S"].open_job({"a": 1}), recursive=True)
        else:
            st["D"].sync(st["S"], recursive=True, check_schema=False)

    def missing(root):
        out = []
        for k in ((1,) if case["faults"] == "job-level" else (1, 2)):
            jid = model.model_id({"a": k})
            for rel, c in files.items():
                fn = os.path.join(root, "d", "workspace", jid, rel)
                try:
                    with open(fn) as f:
                        if f.read() != c + str(k):
                            out.append((k, rel, "differs"))
                except OSError:
                    out.append((k, rel, "absent"))
        return out

    base = ctx.scratch("sf")
    root0 = os.path.join(base, "rec")
    os.makedirs(root0)
    rec = faultrun.run(setup, op, root0, include_reads=True)
    if rec["outcome"] != "returned" or missing(root0):
        raise RuntimeError(f"recording run failed: {rec['outcome']} {rec.get('error')} {missing(root0)}")
    n = 0
    for st in rec["steps"]:
        for ename, eno in (("EIO", errno.EIO), ("ENOENT", errno.ENOENT), ("EACCES", errno.EACCES)):
            if ename == "ENOENT" and not st["mut"]:
                continue  # on a read, signac by design takes ENOENT for "not there" (cf. C11)
            root = os.path.join(base, f"r{n}")
            n += 1
            os.makedirs(root)
            res = faultrun.run(setup, op, root, plan=("err", st["k"], eno), include_reads=True)
            if res.get("fired"):
                ctx.monitor("sync_under_io_error")
                if res["outcome"] == "returned":
                    miss = missing(root)
                    if miss:
                        ctx.violation("missing-file-not-copied", "sync returned normally after an injected I/O error, but source-only files are missing in the destination",
                                      {"entry": case["faults"], "step": st["ev"], "errno": ename, "missing": miss[:5], "under_fault": True})
                        return
                ctx.distinct("nontrivial", ["faults", case["faults"], st["k"], ename])
            shutil.rmtree(root, ignore_errors=True)


def run_case(ctx, case):
    from signac.errors import DocumentSyncConflict, FileSyncConflict, SchemaSyncConflict

    if "faults" in case:
        return run_faults(ctx, case)

    src_spec, dst_spec, opts = case["src"], case["dst"], case["opts"]
    S = syncgen.build(ctx, src_spec, "s")
    D = syncgen.build(ctx, dst_spec, "d")
    s_before = model.snapshot(S.path, with_mtime=True)
    d_before = model.snapshot(D.path)
    flog, dlog = [], []
    with fsmon.Session([S.path, D.path], readonly=[S.path]) as sess:
        err = syncgen.call_sync(D, S, opts, flog, dlog, entry=case["entry"])
    s_after = model.snapshot(S.path, with_mtime=True)
    ctx.monitor("source_readonly")
    if sess.policy_hits or s_before != s_after:
        ctx.violation("sync-mutates-source", "the source project was written to during sync",
                      {"events": [h[1] for h in sess.policy_hits][:5], "diff": model.snap_diff(s_before, s_after),
                       "opts": opts, "raised": repr(err)})
        return
    if err is not None:
        if isinstance(err, (FileSyncConflict, DocumentSyncConflict, SchemaSyncConflict)):
            ctx.count("legit_conflict_unjudged")
        else:
            ctx.count("other_exception_unjudged:" + type(err).__name__)
        return
    d_after = model.snapshot(D.path)
    sel = opts["selection"]
    src_keys = sorted(src_spec["jobs"]) if sel is None else sorted(sel[1])
    copied = 0
    kept = 0
    problems = []
    for key in src_keys:
        jid = model.model_id(syncgen.sp_of(key))
        ctx.monitor("jobs_present")
        files_after = job_files(d_after, jid)
        if model.SP_FILE not in files_after:
            problems.append(("job-missing-in-destination", key))
            continue
        import json

        if not model.typed_eq(json.loads(files_after[model.SP_FILE][1].decode()), syncgen.sp_of(key)):
            problems.append(("statepoint-differs", key))
        newly = key not in dst_spec["jobs"]
        files_before = job_files(d_before, jid)
        sfiles = job_files({k: v[:2] for k, v in s_before.items()}, jid)
        for rel, ent in sfiles.items():
            if ent[0] != "f" or rel == model.SP_FILE:
                continue
            if rel == model.DOC_FILE and opts["doc_sync"] != "COPY":
                continue  # under DocSync.COPY the document is an ordinary file
            base = os.path.basename(rel)
            if syncgen.excluded(opts, base):
                continue
            if rel in files_before:
                continue
            nested = os.sep in rel
            if nested and not (opts["recursive"] or newly):
                continue
            if nested and not newly:
                # a sub-directory whose *name* is excluded is skipped as a whole
                if any(syncgen.excluded(opts, part) for part in rel.split(os.sep)[:-1]):
                    continue
            ctx.monitor("missing_files_copied")
            if files_after.get(rel) != ent:
                problems.append(("missing-file-not-copied", key, rel, files_after.get(rel)))
            else:
                copied += 1
    # destination-only files and keys
    for key, spec in dst_spec["jobs"].items():
        jid = model.model_id(syncgen.sp_of(key))
        fb, fa = job_files(d_before, jid), job_files(d_after, jid)
        if not opts["recursive"]:
            # sub-directories of an existing destination job are not to be touched
            ctx.monitor("no_recursion_unless_asked")
            nb = {k: v for k, v in fb.items() if os.sep in k or v[0] == "d"}
            na = {k: v for k, v in fa.items() if os.sep in k or v[0] == "d"}
            if nb != na:
                problems.append(("subdirectory-touched-without-recursive", key, model.snap_diff(nb, na)))
        sfiles = job_files({k: v[:2] for k, v in s_before.items()}, jid) if key in src_spec["jobs"] else {}
        for rel, ent in fb.items():
            if rel in (model.SP_FILE, model.DOC_FILE) or ent[0] != "f":
                continue
            if rel not in sfiles:
                ctx.monitor("dst_only_files_kept")
                kept += 1
                if fa.get(rel) != ent:
                    problems.append(("destination-only-file-changed", key, rel))
        flat = flat_doc if opts["doc_sync"] != "update" else (lambda d: dict(d))  # DocSync.update = dict.update: top-level keys
        docb, doca = flat(doc_of(fb)), flat(doc_of(fa))
        sdoc = flat(src_spec["jobs"][key]["doc"]) if key in src_spec["jobs"] else {}
        if opts["doc_sync"] == "COPY" and opts["strategy"] in ("always", "update", "custom"):
            continue
        for k, v in docb.items():
            # a key is destination-only if neither it nor a prefix/extension of it exists in the source
            if any(sk == k or sk.startswith(k + ".") or k.startswith(sk + ".") for sk in sdoc):
                continue
            ctx.monitor("dst_only_keys_kept")
            kept += 1
            if k not in doca or not model.typed_eq(doca[k], v):
                problems.append(("destination-only-key-changed", key, k, doca.get(k)))
    import json

    flat = flat_doc if opts["doc_sync"] != "update" else (lambda d: dict(d))
    pb = flat(json.loads(d_before[model.PDOC_FILE][1].decode())) if model.PDOC_FILE in d_before else {}
    pa = flat(json.loads(d_after[model.PDOC_FILE][1].decode())) if model.PDOC_FILE in d_after else {}
    spd = flat(src_spec["pdoc"])
    for k, v in pb.items():
        if any(sk == k or sk.startswith(k + ".") or k.startswith(sk + ".") for sk in spd):
            continue
        ctx.monitor("dst_only_keys_kept")
        if k not in pa or not model.typed_eq(pa[k], v):
            problems.append(("destination-only-project-key-changed", k))
    if problems:
        kinds = sorted({p[0] for p in problems})
        ctx.violation(kinds[0], "post-condition of a returned sync violated",
                      {"problems": problems[:5], "opts": opts, "entry": case["entry"]})
        return
    # idempotence
    flog2, dlog2 = [], []
    err2 = syncgen.call_sync(D, S, opts, flog2, dlog2, entry=case["entry"])
    d_again = model.snapshot(D.path)
    ctx.monitor("idempotent")
    if d_again != d_after:
        ctx.violation("second-sync-changes-destination", "repeating the same sync changed the destination",
                      {"diff": model.snap_diff(d_after, d_again), "opts": opts, "second_raised": repr(err2)})
        return
    # the destination loses one of the synchronised jobs (its user removes it) and the same two handles synchronise
    # again: the job is back with its state point, however stale the handles' caches are by now
    if src_keys and len(case["entry"]) % 2 == 0 or src_keys and len(src_keys) > 2:
        import json

        key = src_keys[0]
        jid = model.model_id(syncgen.sp_of(key))
        gone = False
        try:
            D.open_job(id=jid).remove()
            gone = True
        except Exception:
            pass
        if gone:
            err3 = syncgen.call_sync(D, S, opts, [], [], entry=case["entry"])
            if err3 is None:
                ctx.monitor("resync_after_removal")
                fn = os.path.join(D.path, "workspace", jid, model.SP_FILE)
                ok = os.path.isfile(fn)
                if ok:
                    try:
                        ok = model.typed_eq(model.read_json(fn), syncgen.sp_of(key))
                    except Exception:
                        ok = False
                if not ok:
                    ctx.violation("job-missing-in-destination", "after removing a job from the destination, synchronising again did not bring it back with its state point",
                                  {"job": key, "listing": sorted(os.listdir(os.path.join(D.path, "workspace", jid)))
                                   if os.path.isdir(os.path.join(D.path, "workspace", jid)) else None, "opts": opts,
                                   "entry": case["entry"], "resync_after_removal": True})
                    return
    if copied or kept:
        ctx.distinct("nontrivial", case)
    ctx.sample({"opts": opts, "src_jobs": sorted(src_spec["jobs"]), "dst_jobs": sorted(dst_spec["jobs"]),
                "copied": copied, "dst_only_items": kept})
