#!/bin/sh
# run every thorough tier once against a repo snapshot (VP_RUN_REPO) or /repo
REPO="${VP_RUN_REPO:-/repo}"
export PYTHONPATH="$REPO"
for p in ${PROPS:-C01 C02 C03 C04 C05 C06 C07 C08 C09 C10 C11 C12 C13 C14 C15 C16 C17 C18 C19 C20}; do
  t0=$(date +%s)
  ./check $p --tier thorough --seed ${SEED:-0} > thorough_$p.log 2>&1
  rc=$?
  echo "$p exit=$rc $(( $(date +%s) - t0 ))s viol=$(grep -c '^VIOLATION' thorough_$p.log) :: $(tail -1 thorough_$p.log | cut -c1-160)"
  grep -h '^  key=' thorough_$p.log | sort | uniq -c | head -5
done
