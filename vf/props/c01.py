"""C01 - job id is the canonical, order-independent hash of the state point value."""

import collections
import json
import os
import subprocess
import sys

from .. import gen, model

PROP = "C01"
LEVEL = "exploration"
MONITORS = ["id_equals_model", "golden", "injective", "dirname", "cross_session", "edited_handle_id", "reload_rederives_id"]
DISTINCT = "nontrivial"
RULE = (
    "State points = every nested JSON value over a small alphabet (null,bool,0,1,1.0,'1','é'; keys a,b; "
    "depth<=2 exhaustively, then seeded random values to depth 5 over a wider alphabet incl. 2^53-1, -0.0, "
    "1e22, 1e-7, control characters); each is hashed through every spelling (all key orders at every level, "
    "dict/OrderedDict/tuple-for-list/JSON round trip/synced collection/another job's .sp) "
    "via calc_id, Project.open_job().id and the directory name made by init(); every 12th initialised job also has "
    "its file replaced by near-miss values (extra key, missing key, 1 -> 1.0) and is opened by id in a new Project, "
    "each accessor asked twice: whatever is presented must hash to the id. Non-trivial and distinct = "
    "distinct canonical JSON texts with at least one key whose every spelling was compared with the model."
)
RULE += (
    " " + 'Added while validating against independently written changes: the value held by a job document reached through a fresh (not yet loaded) handle, or through a handle that loaded it before its last change, as a spelling (alone and nested); what a session answers by id after the caller changed the mapping it had opened the job with, after update_cache() attempts over a near-miss file, and after an edit refused because the destination exists.'
    " In every third case DEBUG logging is effective for the package."
)
ASSUMPTIONS = [
    "The reference hash is md5(json.dumps(plain, sort_keys, ensure_ascii, separators=(', ',': '))) written "
    "from the statement; it is itself pinned by golden ids from published signac examples.",
    "Cross-session = fresh interpreters with PYTHONHASHSEED in {1,2,random}.",
]
SHARDS = {"quick": 16, "thorough": 16}
MANIFEST = {"technique": 'runtime monitoring: reference-hash oracle (canonical JSON md5 + published golden ids) over enumerated / random spellings, fresh interpreters and in-place edits', "engine": 'reference-model monitor'}
TIME_CAP = {"quick": 60, "thorough": 900}

GOLDEN = [
    ({"a": 0}, "9bfd29df07674bc4aa960cf661b5acd2"),
    ({"constant": 42, "diff1": 0, "diff2": 1}, "c4af2b26f1fd256d70799ad3ce3bdad0"),
    ({"constant": 42, "diff1": 1, "diff2": 1}, "b96b21fada698f8934d58359c72755c0"),
    ({"constant": 42, "diff1": 2, "diff2": 2}, "e4289419d2b0e57e4852d44a09f167c0"),
]


def EXHAUSTIVE(tier):
    return False


def _sps_exhaustive(depth, cap):
    """depth-3 values under one key, all 3/4-entry flat state points, then pairs (strided to cap)."""
    import itertools

    vals = list(gen.enum_values(depth - 1))
    yield {}
    for v in vals:
        yield {"a": v}
    keys4 = ["a", "b", "k é", ""]
    for n in (4, 3):
        for ks in itertools.combinations(keys4, n):
            for combo in itertools.product(gen.SMALL_ATOMS, repeat=n):
                yield dict(zip(ks, combo))
    small = list(gen.enum_values(1))
    for v in small:
        for w in small:
            yield {"a": v, "b": w}
    remaining = cap - (1 + len(vals) + 2401 + 4 * 343 + len(small) ** 2)
    if remaining > 0:
        stride = max(1, (len(vals) ** 2) // remaining)
        for idx in range(0, len(vals) ** 2, stride):
            yield {"a": vals[idx // len(vals)], "b": vals[idx % len(vals)]}


def gen_cases(ctx):
    i = 0
    if ctx.take(i):
        yield {"kind": "golden"}
    i += 1
    rng = ctx.grng("xs")
    # cross-session batches
    for k in range(ctx.budget(16, 64)):
        sps = [gen.rand_sp(rng, depth=rng.randint(1, 4), min_keys=1) for _ in range(40)]
        if ctx.take(i):
            yield {"kind": "xsession", "sps": sps, "hashseed": ["1", "2", "random"][k % 3]}
        i += 1

    # seeded random deep values
    rng = ctx.grng("deep")
    nrand = ctx.budget(600, 12000)
    for _ in range(nrand):
        sps = [gen.rand_sp(rng, depth=rng.randint(1, 5)) for _ in range(10)]
        if ctx.take(i):
            yield {"kind": "batch", "sps": sps}
        i += 1
    # bounded-exhaustive part
    depth = 3
    per_case = 40
    batch = []
    exhaustive_cap = ctx.budget(22000, 800000)
    n = 0
    for sp in _sps_exhaustive(depth, exhaustive_cap):
        n += 1
        if n > exhaustive_cap:
            break
        batch.append(sp)
        if len(batch) == per_case:
            if ctx.take(i):
                yield {"kind": "batch", "sps": batch}
            i += 1
            batch = []
    if batch:
        if ctx.take(i):
            yield {"kind": "batch", "sps": batch}
        i += 1


_state = {}


def _project(ctx):
    import signac

    if "p" not in _state:
        d = ctx.scratch("proj", keep=True)
        _state["p"] = signac.init_project(d)
        _state["text2id"] = {}
        _state["id2text"] = {}
        _state["ninit"] = 0
    return _state["p"]


def _tuplify(v):
    if isinstance(v, list):
        return tuple(_tuplify(x) for x in v)
    if isinstance(v, dict):
        return {k: _tuplify(x) for k, x in v.items()}
    return v


def _od(v):
    if isinstance(v, dict):
        return collections.OrderedDict((k, _od(x)) for k, x in v.items())
    if isinstance(v, list):
        return [_od(x) for x in v]
    return v


def spellings(ctx, project, sp, rng):
    from synced_collections.backends.collection_json import JSONAttrDict

    from signac.job import _StatePointDict  # noqa: F401  (spelling taken through job.sp below)

    for perm in gen.permutations_of_mapping(sp, rng, 24):
        yield "perm", perm
    yield "ordered", _od(sp)
    yield "tuples", _tuplify(sp)
    yield "roundtrip", json.loads(json.dumps(sp))
    try:
        yield "synced", JSONAttrDict(data=json.loads(json.dumps(sp)))
    except Exception as e:  # invalid keys for attr dicts are not part of the quantifier
        ctx.count("synced_spelling_rejected")
    # a file-backed collection that holds the value but has not been loaded by this handle yet (a job document
    # reached through a new handle), on its own and as a nested value
    _state["nspell"] = _state.get("nspell", 0) + 1
    if _state["nspell"] % 8 == 0 and isinstance(sp, dict):
        import signac
        carrier_sp = {"zz_carrier": True}
        try:
            project.open_job(carrier_sp).document.reset(json.loads(json.dumps(sp)))
            ok = True
        except Exception:
            ctx.count("synced_spelling_rejected")
            ok = False
        if ok:
            ctx.count("unloaded_document_spellings")
            yield "unloaded-document", signac.Project(project.path).open_job(carrier_sp).document
            # ... and one that this handle loaded earlier, before the file got its present content through another handle
            try:
                project.open_job(carrier_sp).document.reset({"zz_earlier": [1, 2]})
                held = signac.Project(project.path).open_job(carrier_sp).document
                _ = held()
                project.open_job(carrier_sp).document.reset(json.loads(json.dumps(sp)))
                yield "document-loaded-before-last-change", held
            except Exception:
                ctx.count("synced_spelling_rejected")
            subs = [k for k, v in sp.items() if isinstance(v, dict) and v]
            if subs:
                k = subs[0]
                project.open_job(carrier_sp).document.reset(json.loads(json.dumps(sp[k])))
                nested = {kk: vv for kk, vv in json.loads(json.dumps(sp)).items() if kk != k}
                nested[k] = signac.Project(project.path).open_job(carrier_sp).document
                yield "nested-unloaded-document", nested
    other = project.open_job(json.loads(json.dumps(sp)))
    yield "jobsp", other.sp
    yield "jobsp_call", other.statepoint()
    yield "cached", dict(other.cached_statepoint)


def _flip(v):
    """The same value with the first number / bool leaf replaced by a Python-equal JSON value of another type."""
    if isinstance(v, bool):
        return int(v), True
    if isinstance(v, int):
        return float(v), True
    if isinstance(v, float) and v == int(v) and abs(v) < 2 ** 53:
        return int(v), True
    if isinstance(v, dict):
        out, done = {}, False
        for k, x in v.items():
            if not done:
                x, done = _flip(x)
            out[k] = x
        return out, done
    if isinstance(v, (list, tuple)):
        out, done = [], False
        for x in v:
            if not done:
                x, done = _flip(x)
            out.append(x)
        return out, done
    return v, False


def _near_misses(sp):
    yield dict(sp, zz_other=1)
    f, done = _flip(sp)
    if done:
        yield f
    if sp:
        k = sorted(sp)[0]
        yield {kk: vv for kk, vv in sp.items() if kk != k}


def check_sp(ctx, project, sp, rng, do_init):
    from signac.job import calc_id

    try:
        expected = model.model_id(sp)
    except ValueError:
        return
    text = model.canon_text(sp)
    nsp = 0
    for name, s in spellings(ctx, project, sp, rng):
        nsp += 1
        ctx.monitor("id_equals_model")
        try:
            got = calc_id(s)
            got2 = project.open_job(s).id
        except Exception as e:
            ctx.violation(
                f"spelling-{name}-raises", f"hashing a {name} spelling raised {type(e).__name__}: {e}",
                {"sp": sp, "spelling": name},
            )
            continue
        if got != expected or got2 != expected or len(got) != 32 or got != got.lower():
            ctx.violation(
                "id-differs-from-canonical-md5",
                f"id {got}/{got2} != md5 of canonical JSON {expected} for spelling '{name}'",
                {"sp": sp, "text": text, "spelling": name, "got": got, "open_job": got2, "expected": expected},
            )
    ctx.count("spellings", nsp)
    # injectivity on the explored set
    ctx.monitor("injective")
    t2i, i2t = _state["text2id"], _state["id2text"]
    jid = project.open_job(sp).id
    tk = repr(model.tkey(sp))
    if t2i.setdefault(tk, jid) != jid:
        ctx.violation("same-value-two-ids", "one JSON value produced two ids", {"sp": sp})
    if i2t.setdefault(jid, tk) != tk:
        ctx.violation(
            "two-values-one-id", "two different JSON values share an id",
            {"sp": sp, "other": i2t[jid], "id": jid},
        )
    if sp:
        ctx.distinct("nontrivial", text)
    if do_init:
        ctx.monitor("dirname")
        job = project.open_job(sp)
        try:
            job.init()
        except Exception as e:
            ctx.violation("init-raises", f"init() raised {type(e).__name__}: {e}", {"sp": sp})
            return
        d = os.path.join(project.workspace, expected)
        if not os.path.isdir(d):
            ctx.violation(
                "dirname-differs", "init() did not create workspace/<canonical id>",
                {"sp": sp, "expected": expected, "listing": sorted(os.listdir(project.workspace))[:5]},
            )
        else:
            on_disk = model.read_json(os.path.join(d, model.SP_FILE))
            if not model.typed_eq(on_disk, sp) or model.model_id(on_disk) != expected:
                ctx.violation(
                    "file-roundtrip-changes-value", "state point file does not parse back to the value",
                    {"sp": sp, "on_disk": on_disk},
                )
        # the id stays the hash of the value through in-place edits between Python-equal JSON values
        if _state["ninit"] % 12 == 0:
            for v in (1, 1.0, True, "1", [1, 1.0], [True, 1.0]):
                ctx.monitor("edited_handle_id")
                try:
                    job.sp["zz_edit"] = v
                except Exception as e:  # noqa
                    ctx.violation("edit-raises", f"state point edit raised {type(e).__name__}: {e}", {"sp": sp, "value": v})
                    break
                now = model.plain(job.statepoint())
                want = model.model_id(now)
                if job.id != want or not os.path.isdir(os.path.join(project.workspace, want)) \
                        or not model.typed_eq(now.get("zz_edit"), v):
                    ctx.violation("id-not-hash-of-edited-statepoint",
                                  "after an in-place edit job.id is not the canonical hash of job.statepoint()",
                                  {"sp": now, "edit": v, "id": job.id, "expected": want})
                    break
        # ... and for a handle opened by id in a session that first met the job through a mapping its caller went on
        # to modify
        if _state["ninit"] % 12 == 9 and isinstance(sp, dict):
            import signac

            arg = json.loads(json.dumps(sp))
            pf = signac.Project(project.path)
            pf.open_job(arg)
            touched = False
            for v in arg.values():
                if isinstance(v, dict):
                    v["zz_later"] = 1
                    touched = True
                elif isinstance(v, list):
                    v.append("zz_later")
                    touched = True
            if touched:
                ctx.monitor("edited_handle_id")
                h = pf.open_job(id=expected)
                now = model.plain(h.statepoint())
                if h.id != model.model_id(now):
                    ctx.violation("handle-presents-value-with-other-hash",
                                  "a handle opened by id presents a state point that does not hash to its id",
                                  {"id": h.id, "presented": now, "sp": sp, "handle": "by id after the caller changed its mapping"})
        # ... and through an edit that is refused because the destination id is taken
        if _state["ninit"] % 12 == 3 and isinstance(sp, dict) and "zz_edit" not in sp:
            blocker = project.open_job(dict(json.loads(json.dumps(sp)), zz_edit="taken")).init()
            h = project.open_job(json.loads(json.dumps(sp)))
            ctx.monitor("edited_handle_id")
            try:
                h.sp["zz_edit"] = "taken"
                refused = False
            except Exception:
                refused = True
            now = model.plain(h.statepoint())
            if refused and h.id != model.model_id(now):
                ctx.violation("id-not-hash-of-edited-statepoint",
                              "after a refused edit (destination exists) job.id is not the canonical hash of job.statepoint()",
                              {"sp": sp, "presented": now, "id": h.id})
            blocker.remove()
        # the id is re-derived from the file on every load: a handle opened by id in a new session never
        # presents a value that hashes to another id, however often and through whichever accessor it is asked
        if _state["ninit"] % 12 == 6:
            import signac
            for other in _near_misses(sp):
                ctx.monitor("reload_rederives_id")
                with open(os.path.join(d, model.SP_FILE), "w") as f:
                    json.dump(other, f)
                handles = [("fresh", signac.Project(project.path).open_job(id=expected))]
                # ... nor after a session tried to refresh the persistent cache over that file
                P = signac.Project(project.path)
                for _ in range(2):
                    try:
                        P.update_cache()
                    except Exception:
                        ctx.count("update_cache_refused")
                for tag, pr in (("same-session-after-update_cache", P), ("fresh-after-update_cache", signac.Project(project.path))):
                    try:
                        handles.append((tag, pr.open_job(id=expected)))
                    except Exception:
                        ctx.count("reload_refused")
                for tag, h in handles:
                    for rnd in range(2):
                        for how, get in (("statepoint()", lambda: h.statepoint()), ("sp", lambda: dict(h.sp)),
                                         ("cached_statepoint", lambda: dict(h.cached_statepoint))):
                            try:
                                v = model.plain(get())
                            except Exception:
                                ctx.count("reload_refused")
                                continue
                            if h.id != model.model_id(v):
                                ctx.violation("handle-presents-value-with-other-hash",
                                              "a handle opened by id presents a state point that does not hash to its id",
                                              {"id": h.id, "file": other, "presented": v, "accessor": how, "ask": rnd,
                                               "handle": tag})
                try:
                    os.remove(os.path.join(project.path, model.CACHE_FILE))
                except FileNotFoundError:
                    pass
            with open(os.path.join(d, model.SP_FILE), "w") as f:
                json.dump(sp, f)
        _state["ninit"] += 1
        job.remove()


def run_case(ctx, case):
    import signac  # noqa
    from signac.job import calc_id

    project = _project(ctx)
    rng = ctx.rng("perm")
    if case["kind"] == "golden":
        for sp, gid in GOLDEN:
            ctx.monitor("golden")
            if model.model_id(sp) != gid:
                raise AssertionError("reference model disagrees with published golden id")
            got = project.open_job(sp).id
            if got != gid or calc_id(sp) != gid:
                ctx.violation("golden-id-changed", f"published id {gid} is now {got}", {"sp": sp})
        ctx.distinct("nontrivial", "golden")
        ctx.sample({"golden": GOLDEN[0][0], "id": GOLDEN[0][1]})
        return
    if case["kind"] == "batch":
        for k, sp in enumerate(case["sps"]):
            check_sp(ctx, project, sp, rng, do_init=(k % 4 == 0))
        ctx.sample({"sp": case["sps"][-1], "id": model.model_id(case["sps"][-1])})
        return
    if case["kind"] == "xsession":
        sps = case["sps"]
        env = dict(os.environ)
        env["PYTHONHASHSEED"] = case["hashseed"]
        code = (
            "import sys, json\n"
            "import signac\n"
            "from signac.job import calc_id\n"
            "sps = json.load(sys.stdin)\n"
            "print(json.dumps([calc_id(sp) for sp in sps]))\n"
        )
        out = subprocess.run(
            [sys.executable, "-c", code], input=json.dumps(sps), capture_output=True, text=True, env=env,
            timeout=120,
        )
        if out.returncode != 0:
            raise RuntimeError(out.stderr[-2000:])
        ids = json.loads(out.stdout)
        for sp, other in zip(sps, ids):
            ctx.monitor("cross_session")
            try:
                expected = model.model_id(sp)
            except ValueError:
                continue
            here = project.open_job(sp).id
            if other != expected or here != expected:
                ctx.violation(
                    "id-differs-across-sessions", "id differs between interpreter sessions / from the model",
                    {"sp": sp, "other_session": other, "here": here, "expected": expected,
                     "hashseed": case["hashseed"]},
                )
            ctx.distinct("nontrivial", model.canon_text(sp))
        return
    raise ValueError(case["kind"])
