#!/venv/bin/python
"""Regenerate the generated tables of DESIGN.md (between the BEGIN/END markers) from tools/report.py."""
import os, subprocess
HERE = os.path.dirname(os.path.dirname(os.path.abspath(__file__)))
out = subprocess.run([os.path.join(HERE, "tools", "report.py")], capture_output=True, text=True, check=True).stdout
k = out.index("### Seeded changes")
parts = {"findings": out[:k].rstrip() + "\n", "seeded": out[k:].rstrip() + "\n"}
p = os.path.join(HERE, "DESIGN.md")
s = open(p).read()
for name, text in parts.items():
    b, e = f"<!-- BEGIN generated: {name} -->\n", f"<!-- END generated: {name} -->"
    i, j = s.index(b) + len(b), s.index(e)
    s = s[:i] + text + s[j:]
open(p, "w").write(s)
print("spliced")
